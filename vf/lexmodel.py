"""Value-position lexer model assembled from the LIVE tables of octave_mcp.core.lexer / emitter.

Everything table-like is read from the imported module objects on every run (TOKEN_PATTERNS order and text,
ASCII_ALIASES, OPERATOR_CHARS, the emitter's four patterns, _UNICODE_OPS, the reserved tuple inside needs_quotes is
covered by the XH lemma L3).  The identifier start/body classes are tabulated by calling the real predicate
functions on every code point <= U+2FFFF (table build, not a decision step).

The ordered-choice skeleton (what `tokenize` does at one position: first matching pattern in order, then '+',
then the identifier scanner, then '%'-merge, else error) is hand-transcribed from tokenize; lemmas in
harness/C01.py (L1, L2) and the cross-check pass tie it to the code.
"""
from __future__ import annotations

import functools

from octave_mcp.core import emitter, lexer

from vf import rx


@functools.lru_cache(None)
def id_start_ranges():
    return tuple(rx.ranges_of(lexer._is_valid_identifier_start))


@functools.lru_cache(None)
def id_body_ranges():
    return tuple(rx.ranges_of(lexer._is_valid_identifier_char))


def ID_START():
    return rx.cls(id_start_ranges())


def ID_BODY():
    return rx.cls(id_body_ranges())


def scan_ident():
    """Language of texts the scanner consumes *entirely* as one plain identifier (no <...> extension):
    start body* with no trailing hyphen."""
    base = rx.cat(ID_START(), rx.star(ID_BODY()))
    return rx.inter(base, rx.comp(rx.cat(rx.SIGMA_STAR, rx.lit("-"))))


def scan_annot():
    """NAME<qual> as consumed by _match_unicode_identifier: NAME = scan_ident; qual is empty, or
    start (body | ',')* not ending in '-' (the trailing-hyphen strip then misses the '>')."""
    qual = rx.inter(
        rx.cat(ID_START(), rx.star(rx.alt(ID_BODY(), rx.lit(",")))),
        rx.comp(rx.cat(rx.SIGMA_STAR, rx.lit("-"))),
    )
    return rx.cat(scan_ident(), rx.lit("<"), rx.opt(qual), rx.lit(">"))


def patterns():
    """[(index, pattern_text, token_type_name)] from the live TOKEN_PATTERNS."""
    return [(i, p, t.name) for i, (p, t) in enumerate(lexer.TOKEN_PATTERNS)]


def pm(pattern_text, left_word=False, over_approx=False):
    try:
        return rx.prefix_lang(pattern_text, left_word=left_word)
    except rx.Unsupported:
        if over_approx:
            return rx.prefix_lang(pattern_text, left_word=left_word, drop_neg_lookahead=True)
        raise


def pm_union(skip_types=("GRAMMAR_SENTINEL",), only_before=None, left_word=False):
    """Union of prefix-match languages of the token patterns (sentinel only matches at offset 0 of the document).
    Patterns with look-aheads the translator cannot place exactly are over-approximated (sound for 'no pattern
    matches' obligations).  only_before: token type name; take only patterns listed before its first occurrence."""
    langs = []
    for i, p, t in patterns():
        if only_before is not None and t == only_before:
            break
        if t in skip_types:
            continue
        langs.append(pm(p, left_word=left_word, over_approx=True))
    return rx.alt(*langs)


def pattern_of(type_name, nth=0):
    k = 0
    for i, p, t in patterns():
        if t == type_name:
            if k == nth:
                return p
            k += 1
    raise KeyError(type_name)


def unicode_ops():
    return emitter._UNICODE_OPS


def follow(extra_chars=""):
    """What can follow a value in canonical text: end of text, newline, comma, closing bracket, ' // comment',
    plus `extra_chars` (operator characters inside expressions)."""
    first = "\n,]" + extra_chars
    return rx.alt(rx.EPS, rx.cat(rx.chars(first), rx.SIGMA_STAR), rx.cat(rx.lit(" //"), rx.SIGMA_STAR))


RESERVED = ("true", "false", "null", "vs")


def reserved_exact():
    return rx.alt(*[rx.lit(w) for w in RESERVED])


def reserved_prefix_family():
    """Known-finding family: a reserved word followed by '.' or '-' (the only non-word identifier body chars)."""
    return rx.cat(reserved_exact(), rx.chars(".-"), rx.SIGMA_STAR)
