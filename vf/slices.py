"""Slices of the real source, regenerated from /repo on every run: a branch of a large function is lifted into a
callable by AST extraction so that CrossHair executes exactly those statements (the real code) without the
surrounding loop.  If the anchor statement is no longer found, Unsliceable is raised -> obligation inconclusive."""
from __future__ import annotations

import ast
import inspect
import textwrap


class Unsliceable(Exception):
    pass


def branch_of(func, test_src: str, params, returns, module, prelude=()):
    """Find the unique `if/elif <test_src>:` inside `func` and compile its body as  def slice(*params): ...; return returns"""
    src = textwrap.dedent(inspect.getsource(func))
    tree = ast.parse(src)
    found = []
    want = ast.unparse(ast.parse(test_src, mode="eval").body)

    class V(ast.NodeVisitor):
        def visit_If(self, node):
            if ast.unparse(node.test) == want:
                found.append(node.body)
            self.generic_visit(node)

    V().visit(tree)
    if len(found) != 1:
        raise Unsliceable(f"{func.__name__}: expected exactly one branch `{test_src}`, found {len(found)}")
    stmts = list(found[0])
    if stmts and isinstance(stmts[-1], ast.Continue):
        stmts = stmts[:-1]  # the branch ends its loop iteration: the slice simply returns
    for st in stmts:
        for n in ast.walk(st):
            if isinstance(n, (ast.Continue, ast.Break)):
                raise Unsliceable(f"{func.__name__}: branch `{test_src}` has inner continue/break")
    body = [ast.parse(p).body[0] for p in prelude] + stmts
    body.append(ast.Return(ast.Tuple([ast.Name(r, ast.Load()) for r in returns], ast.Load())))
    fn = ast.FunctionDef(
        name="slice_" + func.__name__,
        args=ast.arguments(posonlyargs=[], args=[ast.arg(p) for p in params], kwonlyargs=[], kw_defaults=[], defaults=[]),
        body=body,
        decorator_list=[],
        type_params=[],
    )
    mod = ast.Module(body=[fn], type_ignores=[])
    ast.fix_missing_locations(mod)
    ns: dict = {}
    exec(compile(mod, f"<slice of {func.__module__}.{func.__name__}: {test_src}>", "exec"), module.__dict__, ns)  # noqa: S102
    return ns["slice_" + func.__name__]


_CACHE: dict = {}


def tokenize_string_branch():
    """STRING branch of lexer.tokenize: matched_text -> (value, normalized_from)."""
    if "string" not in _CACHE:
        _CACHE["string"] = _tokenize_string_branch()
    return _CACHE["string"]


def _tokenize_string_branch():
    from octave_mcp.core import lexer

    return branch_of(
        lexer.tokenize,
        "token_type == TokenType.STRING",
        ["matched_text"],
        ["value", "normalized_from"],
        lexer,
        prelude=["normalized_from = None"],
    )


def tokenize_fence_branch():
    """Fence-span branch of lexer.tokenize: (content, fence_spans, fence_span_idx, pos, line, column, tokens) ->
    (tokens, pos, line, column, fence_span_idx)."""
    if "fence" not in _CACHE:
        from octave_mcp.core import lexer

        _CACHE["fence"] = branch_of(
            lexer.tokenize,
            "fence_span_idx < len(fence_spans) and pos == fence_spans[fence_span_idx][0]",
            ["content", "fence_spans", "fence_span_idx", "pos", "line", "column", "tokens"],
            ["tokens", "pos", "line", "column", "fence_span_idx"],
            lexer,
        )
    return _CACHE["fence"]


def tokenize_number_branch():
    """NUMBER branch of lexer.tokenize: matched_text -> (value, raw_lexeme)."""
    if "number" not in _CACHE:
        from octave_mcp.core import lexer

        _CACHE["number"] = branch_of(lexer.tokenize, "token_type == TokenType.NUMBER", ["matched_text"], ["value", "raw_lexeme"], lexer)
    return _CACHE["number"]
