"""AST-derived model of emitter.needs_quotes: the function's source is read from /repo on every run and its decision
list is translated into a regular language (BARE = strings for which it returns False).  Supported statement forms:

    if not isinstance(value, str): return False            (string domain: ignored)
    if not value: return True
    if "c" in value or "d" in value ...: return True|False
    if value in ("a", "b", ...): return True|False
    if P.match(value): return True|False                    (P: module-level compiled pattern)
    if not P.match(value): return True|False
    if any(P.match(seg) for seg in Q.split(value)): return True|False   (Q: single-character-class pattern)
    return True|False

Anything else raises rx.Unsupported (obligation inconclusive).  The translation is validated against the real function
by an XH lemma (harness C04 L3: needs_quotes(v) == (v not in BARE) for all short v) - a translator validation, not the
deciding step.
"""
from __future__ import annotations

import ast
import inspect
import textwrap

from vf import rx


def _cond(node, mod, var="value"):
    """-> regex AST of the set of strings for which the condition is true."""
    if isinstance(node, ast.BoolOp):
        parts = [_cond(v, mod, var) for v in node.values]
        return rx.alt(*parts) if isinstance(node.op, ast.Or) else rx.inter(*parts)
    if isinstance(node, ast.UnaryOp) and isinstance(node.op, ast.Not):
        inner = node.operand
        if isinstance(inner, ast.Name) and inner.id == var:
            return rx.EPS  # `not value` : empty string
        return rx.comp(_cond(inner, mod, var))
    if isinstance(node, ast.Compare) and len(node.ops) == 1:
        op, left, right = node.ops[0], node.left, node.comparators[0]
        if isinstance(op, ast.In) and isinstance(left, ast.Constant) and isinstance(left.value, str) and isinstance(right, ast.Name) and right.id == var:
            return rx.contains(rx.lit(left.value))
        if isinstance(op, ast.In) and isinstance(left, ast.Name) and left.id == var and isinstance(right, (ast.Tuple, ast.List, ast.Set)):
            vals = [e.value for e in right.elts if isinstance(e, ast.Constant) and isinstance(e.value, str)]
            if len(vals) != len(right.elts):
                raise rx.Unsupported("non-constant membership list")
            return rx.alt(*[rx.lit(v) for v in vals])
        if isinstance(op, (ast.Eq,)) and isinstance(left, ast.Name) and left.id == var and isinstance(right, ast.Constant):
            return rx.lit(right.value)
    if isinstance(node, ast.Call):
        f = node.func
        if isinstance(f, ast.Name) and f.id == "isinstance":
            return rx.SIGMA_STAR
        if isinstance(f, ast.Attribute) and f.attr in ("match", "fullmatch") and isinstance(f.value, ast.Name) and len(node.args) == 1 and isinstance(node.args[0], ast.Name) and node.args[0].id == var:
            pat = getattr(mod, f.value.id, None)
            if pat is None:
                raise rx.Unsupported("unknown pattern " + f.value.id)
            return rx.full_lang(pat) if f.attr == "match" else rx.fullmatch_lang(pat)
        if isinstance(f, ast.Name) and f.id == "any" and len(node.args) == 1 and isinstance(node.args[0], ast.GeneratorExp):
            g = node.args[0]
            if len(g.generators) == 1 and not g.generators[0].ifs:
                it = g.generators[0].iter
                tgt = g.generators[0].target
                if isinstance(it, ast.Call) and isinstance(it.func, ast.Attribute) and it.func.attr == "split" and isinstance(it.func.value, ast.Name) and isinstance(tgt, ast.Name):
                    q = getattr(mod, it.func.value.id, None)
                    elt = g.elt
                    if q is not None and isinstance(elt, ast.Call) and isinstance(elt.func, ast.Attribute) and elt.func.attr == "match" and isinstance(elt.func.value, ast.Name) and len(elt.args) == 1 and isinstance(elt.args[0], ast.Name) and elt.args[0].id == tgt.id:
                        p = getattr(mod, elt.func.value.id, None)
                        if p is None:
                            raise rx.Unsupported("unknown pattern " + elt.func.value.id)
                        sep = rx.fullmatch_lang(q)
                        if sep[0] != "cls":
                            raise rx.Unsupported("split pattern is not a single character class")
                        seg_start = rx.alt(rx.EPS, rx.cat(rx.SIGMA_STAR, sep))
                        return rx.cat(seg_start, rx.prefix_lang(p))
    raise rx.Unsupported("condition form: " + ast.unparse(node))


def bare_language(func=None, mod=None):
    """Regular language of the strings for which needs_quotes returns False (read from the live source)."""
    return rx.alt(*[lang for _, lang in bare_branches(func, mod)])


def bare_branches(func=None, mod=None):
    """[(label, language)] - one entry per `return False` of the decision list: its condition intersected with the
    complements of all earlier conditions."""
    if func is None:
        from octave_mcp.core import emitter as mod_

        mod = mod_
        func = mod_.needs_quotes
    tree = ast.parse(textwrap.dedent(inspect.getsource(func)))
    fn = tree.body[0]
    var = fn.args.args[0].arg
    earlier = []  # conditions of the earlier statements
    out = []
    closed = False
    for st in fn.body:
        if isinstance(st, ast.Expr) and isinstance(st.value, ast.Constant):
            continue  # docstring
        if isinstance(st, ast.If) and len(st.body) == 1 and isinstance(st.body[0], ast.Return) and not st.orelse and isinstance(st.body[0].value, ast.Constant):
            c = _cond(st.test, mod, var)
            if st.body[0].value.value is False:
                out.append((ast.unparse(st.test)[:60], rx.inter(c, *[rx.comp(e) for e in earlier]) if earlier else c))
            earlier.append(c)
            continue
        if isinstance(st, ast.Return) and isinstance(st.value, ast.Constant):
            if st.value.value is False:
                out.append(("fall-through", rx.inter(*[rx.comp(e) for e in earlier]) if earlier else rx.SIGMA_STAR))
            closed = True
            break
        raise rx.Unsupported("statement form: " + ast.unparse(st)[:80])
    if not closed:
        raise rx.Unsupported("function does not end in a constant return")
    return out
