"""Import-time source transformation: error/diagnostic *message formatting* gets constant bodies.

f-strings and str()/repr() calls that only build human-readable diagnostics realise symbolic values under
CrossHair (every formatted value becomes an enumeration point), so the path tree never exhausts.  For the modules
listed in TARGETS the source is read from /repo on import, the arguments of the listed constructor calls (and the
listed dict keys of warning/repair records) are rewritten so that any JoinedStr / str() / repr() / "%"-format /
", ".join(...) inside them becomes the constant "<elided>", and the result is compiled in place of the original.
Everything else - control flow, values, positions, error codes, field paths - is the real code.

Installed only in symbolic worker processes; native replays import the untouched modules.
"""
from __future__ import annotations

import ast
import importlib.abc
import importlib.machinery
import importlib.util
import sys

ELIDED = "<elided>"

# module -> {"ctors": {ctor name: set of keyword names to elide, "*0" = positional arg 0}, "dict_keys": {...}}
TARGETS = {
    "octave_mcp.core.lexer": {"ctors": {"LexerError": {"*0", "message"}}, "dict_keys": {"message"}},
    "octave_mcp.core.parser": {"ctors": {"ParserError": {"*0", "message"}}, "dict_keys": {"message"}},
    "octave_mcp.core.constraints": {
        "ctors": {"ValidationError": {"message", "expected", "got", "constraint"}, "ConstraintConflictError": {"reason", "constraint1", "constraint2"}, "ValueError": {"*0"}},
        "dict_keys": set(),
    },
    "octave_mcp.core.validator": {"ctors": {"ValidationError": {"message"}}, "dict_keys": set()},
    "octave_mcp.core.repair": {"ctors": {}, "dict_keys": set()},
    "octave_mcp.core.holographic": {"ctors": {"HolographicPatternError": {"*0"}}, "dict_keys": set()},
}

DESCRIPTION = "diagnostic message formatting elided by AST transformation at import (message/expected/got texts of " "LexerError, ParserError, ValidationError, ConstraintConflictError, warning-record 'message' keys)"


class _Elide(ast.NodeTransformer):
    """Applied to one argument expression: formatting constructs -> constant."""

    def visit_JoinedStr(self, node):
        return ast.copy_location(ast.Constant(ELIDED), node)

    def visit_Call(self, node):
        f = node.func
        if isinstance(f, ast.Name) and f.id in ("str", "repr", "format"):
            return ast.copy_location(ast.Constant(ELIDED), node)
        if isinstance(f, ast.Attribute) and f.attr in ("join", "format"):
            return ast.copy_location(ast.Constant(ELIDED), node)
        return self.generic_visit(node)

    def visit_BinOp(self, node):
        if isinstance(node.op, ast.Mod) and isinstance(node.left, (ast.Constant, ast.JoinedStr)):
            return ast.copy_location(ast.Constant(ELIDED), node)
        return self.generic_visit(node)


class _Xform(ast.NodeTransformer):
    def __init__(self, spec):
        self.ctors = spec.get("ctors", {})
        self.dict_keys = spec.get("dict_keys", set())
        self.count = 0

    def visit_Call(self, node):
        self.generic_visit(node)
        f = node.func
        name = f.id if isinstance(f, ast.Name) else (f.attr if isinstance(f, ast.Attribute) else None)
        if name in self.ctors:
            which = self.ctors[name]
            if "*0" in which and node.args:
                node.args[0] = _Elide().visit(node.args[0])
                self.count += 1
            for kw in node.keywords:
                if kw.arg in which:
                    kw.value = _Elide().visit(kw.value)
                    self.count += 1
        return node

    def visit_Dict(self, node):
        self.generic_visit(node)
        for i, k in enumerate(node.keys):
            if isinstance(k, ast.Constant) and k.value in self.dict_keys:
                node.values[i] = _Elide().visit(node.values[i])
                self.count += 1
        return node


class _Loader(importlib.abc.SourceLoader):
    def __init__(self, fullname, path, spec):
        self.fullname = fullname
        self.path = path
        self.spec = spec

    def get_filename(self, fullname):
        return self.path

    def get_data(self, path):
        with open(path, "rb") as fh:
            return fh.read()

    def source_to_code(self, data, path, *, _optimize=-1):
        tree = ast.parse(data, filename=path)
        x = _Xform(self.spec)
        tree = x.visit(tree)
        ast.fix_missing_locations(tree)
        COUNTS[self.fullname] = x.count
        return compile(tree, path, "exec", dont_inherit=True, optimize=_optimize)

    def get_code(self, fullname):
        # never use cached bytecode of the untransformed module
        return self.source_to_code(self.get_data(self.path), self.path)


COUNTS: dict = {}


class _Finder(importlib.abc.MetaPathFinder):
    def find_spec(self, fullname, path, target=None):
        if fullname not in TARGETS:
            return None
        for finder in sys.meta_path:
            if finder is self:
                continue
            spec = finder.find_spec(fullname, path, target) if hasattr(finder, "find_spec") else None
            if spec is not None and spec.origin and spec.origin.endswith(".py"):
                loader = _Loader(fullname, spec.origin, TARGETS[fullname])
                return importlib.util.spec_from_loader(fullname, loader, origin=spec.origin)
        return None


_INSTALLED = False


def install():
    global _INSTALLED
    if _INSTALLED:
        return
    for name in TARGETS:
        if name in sys.modules:
            raise RuntimeError(f"srcxform.install() must run before {name} is imported")
    sys.meta_path.insert(0, _Finder())
    _INSTALLED = True
