"""sre -> z3 regular-expression translator and query helpers (engine RX).

Python `re` patterns are taken from the *live* module objects of /repo, parsed with
re._parser, and translated into z3 regular expressions over z3's Unicode strings
(U+0000..U+2FFFF).  Obligations are language inclusion / emptiness queries decided
by z3's sequence theory; `unsat` is unbounded in string length.

Translation is continuation-passing: T(items, K) is the language of the *whole
remaining text* when `items` are matched first and K is what may follow.  That makes
look-ahead exact (intersection with the remaining text) and lets `\\b`, `$`, `\\Z`
be handled from the statically known word-ness of their literal neighbours.

Anything outside the supported fragment raises Unsupported -> obligation inconclusive.
"""
from __future__ import annotations

import re
import sys
import time
import unicodedata

try:
    import re._parser as sre_parse  # py3.11+
    import re._constants as sre_c
except ImportError:  # pragma: no cover
    import sre_parse
    import sre_constants as sre_c

import z3

MAXCH = 0x2FFFF


class Unsupported(Exception):
    pass


# ----------------------------------------------------------------------------
# character classes
# ----------------------------------------------------------------------------
_RANGE_CACHE: dict = {}


def ranges_of(pred) -> list[tuple[int, int]]:
    """Compress {c <= MAXCH : pred(chr(c))} into inclusive ranges (concrete table build)."""
    out = []
    start = None
    for c in range(0, MAXCH + 1):
        if 0xD800 <= c <= 0xDFFF:
            ok = False
        else:
            ok = bool(pred(chr(c)))
        if ok and start is None:
            start = c
        elif not ok and start is not None:
            out.append((start, c - 1))
            start = None
    if start is not None:
        out.append((start, MAXCH))
    return out


def cat_ranges(name: str):
    if name in _RANGE_CACHE:
        return _RANGE_CACHE[name]
    if name == "digit":
        r = ranges_of(lambda ch: ch.isdigit() and unicodedata.category(ch) == "Nd")
    elif name == "word":
        r = ranges_of(lambda ch: ch.isalnum() or ch == "_")
    elif name == "space":
        r = ranges_of(lambda ch: ch.isspace())
    else:
        raise Unsupported("category " + name)
    _RANGE_CACHE[name] = r
    return r


def neg_ranges(rs):
    out = []
    prev = 0
    for a, b in sorted(rs):
        if a > prev:
            out.append((prev, a - 1))
        prev = max(prev, b + 1)
    if prev <= MAXCH:
        out.append((prev, MAXCH))
    return out


def norm_ranges(rs):
    rs = sorted(rs)
    out = []
    for a, b in rs:
        if out and a <= out[-1][1] + 1:
            out[-1] = (out[-1][0], max(out[-1][1], b))
        else:
            out.append((a, b))
    return out


def inter_ranges(r1, r2):
    return neg_ranges(norm_ranges(neg_ranges(norm_ranges(r1)) + neg_ranges(norm_ranges(r2))))


# ----------------------------------------------------------------------------
# regex AST (tuples); compiled to z3 only after alphabet reduction (minterms)
# ----------------------------------------------------------------------------
def cls(rs):
    return ("cls", tuple(norm_ranges(rs)))


EPS = ("eps",)
EMPTY = ("empty",)
SIGMA = ("cls", ((0, MAXCH),))
SIGMA_STAR = ("star", SIGMA)


def re_of_ranges(rs):
    rs = norm_ranges(rs)
    if not rs:
        return EMPTY
    return cls(rs)


def lit(s: str):
    if s == "":
        return EPS
    return cat(*[cls([(ord(c), ord(c))]) for c in s])


def cat(*rs):
    out = []
    for r in rs:
        if r is None or r == EPS:
            continue
        if r == EMPTY:
            return EMPTY
        if r[0] == "cat":
            out.extend(r[1])
        else:
            out.append(r)
    if not out:
        return EPS
    if len(out) == 1:
        return out[0]
    return ("cat", tuple(out))


def alt(*rs):
    out = []
    for r in rs:
        if r == EMPTY:
            continue
        if r[0] == "alt":
            out.extend(r[1])
        else:
            out.append(r)
    if not out:
        return EMPTY
    # merge single-char classes
    cl = [r for r in out if r[0] == "cls"]
    rest = [r for r in out if r[0] != "cls"]
    if len(cl) > 1:
        merged = []
        for c in cl:
            merged.extend(c[1])
        rest.insert(0, cls(merged))
        out = rest
    if len(out) == 1:
        return out[0]
    return ("alt", tuple(out))


def inter(*rs):
    rs = list(rs)
    if any(r == EMPTY for r in rs):
        return EMPTY
    if len(rs) == 1:
        return rs[0]
    return ("inter", tuple(rs))


def comp(r):
    return ("comp", r)


def star(r):
    if r in (EPS, EMPTY):
        return EPS
    return ("star", r)


def plus(r):
    return cat(r, star(r))


def opt(r):
    return alt(EPS, r)


def loop(r, lo, hi):
    return ("loop", r, lo, hi)


def chars(s: str):
    """Language of single characters drawn from the string s."""
    return re_of_ranges([(ord(c), ord(c)) for c in s])


def not_chars(s: str):
    return re_of_ranges(neg_ranges(norm_ranges([(ord(c), ord(c)) for c in s])))


def contains(r):
    return cat(SIGMA_STAR, r, SIGMA_STAR)


def minus(a, b):
    return inter(a, comp(b))


# ----------------------------------------------------------------------------
# sre class items -> ranges
# ----------------------------------------------------------------------------
def _in_ranges(items, flags) -> list[tuple[int, int]]:
    neg = False
    rs: list[tuple[int, int]] = []
    for op, av in items:
        if op is sre_c.NEGATE:
            neg = True
        elif op is sre_c.LITERAL:
            rs.append((av, av))
        elif op is sre_c.RANGE:
            rs.append((av[0], min(av[1], MAXCH)))
        elif op is sre_c.CATEGORY:
            rs.extend(_category(av))
        else:
            raise Unsupported(f"class item {op}")
    rs = norm_ranges(rs)
    if flags & re.IGNORECASE:
        raise Unsupported("IGNORECASE")
    return neg_ranges(rs) if neg else rs


def _category(av):
    if av is sre_c.CATEGORY_DIGIT:
        return cat_ranges("digit")
    if av is sre_c.CATEGORY_NOT_DIGIT:
        return neg_ranges(cat_ranges("digit"))
    if av is sre_c.CATEGORY_WORD:
        return cat_ranges("word")
    if av is sre_c.CATEGORY_NOT_WORD:
        return neg_ranges(cat_ranges("word"))
    if av is sre_c.CATEGORY_SPACE:
        return cat_ranges("space")
    if av is sre_c.CATEGORY_NOT_SPACE:
        return neg_ranges(cat_ranges("space"))
    raise Unsupported(f"category {av}")


def _item_ranges(op, av, flags):
    """ranges of a single-character item, or None if the item is not a single char."""
    if op is sre_c.LITERAL:
        return [(av, av)]
    if op is sre_c.NOT_LITERAL:
        return neg_ranges([(av, av)])
    if op is sre_c.ANY:
        if flags & re.DOTALL:
            return [(0, MAXCH)]
        return neg_ranges([(10, 10)])
    if op is sre_c.IN:
        return _in_ranges(av, flags)
    return None


WORD = None


def word_ranges():
    return cat_ranges("word")


def _is_subset(rs, of):
    return inter_ranges(rs, neg_ranges(of)) == []


# ----------------------------------------------------------------------------
# helpers for static analysis of sre item lists
# ----------------------------------------------------------------------------
def _nullable(items, flags) -> bool:
    for op, av in items:
        if op in (sre_c.AT, sre_c.ASSERT, sre_c.ASSERT_NOT):
            continue
        if op is sre_c.SUBPATTERN:
            if not _nullable(list(av[3]), flags):
                return False
        elif op in (sre_c.MAX_REPEAT, sre_c.MIN_REPEAT):
            lo, hi, sub = av
            if lo > 0 and not _nullable(list(sub), flags):
                return False
        elif op is sre_c.BRANCH:
            if not any(_nullable(list(b), flags) for b in av[1]):
                return False
        else:
            return False
    return True


def _last_char_ranges(items, flags):
    """Ranges the last consumed character of a (non-nullable) item list belongs to; None if unknown."""
    for idx in range(len(items) - 1, -1, -1):
        op, av = items[idx]
        if op in (sre_c.AT, sre_c.ASSERT, sre_c.ASSERT_NOT):
            continue
        r = _item_ranges(op, av, flags)
        if r is not None:
            return r
        if op in (sre_c.MAX_REPEAT, sre_c.MIN_REPEAT):
            lo, hi, sub = av
            sub = list(sub)
            r = _last_char_ranges(sub, flags)
            if r is None:
                return None
            if lo == 0 or _nullable(sub, flags):
                prev = _last_char_ranges(items[:idx], flags) if idx > 0 else None
                if prev is None:
                    return None
                return norm_ranges(r + prev)
            return r
        if op is sre_c.SUBPATTERN:
            sub = list(av[3])
            if _nullable(sub, flags):
                return None
            return _last_char_ranges(sub, flags)
        if op is sre_c.BRANCH:
            acc = []
            for b in av[1]:
                b = list(b)
                if _nullable(b, flags):
                    return None
                r = _last_char_ranges(b, flags)
                if r is None:
                    return None
                acc += r
            return norm_ranges(acc)
        return None
    return None


class Translator:
    """left_word: None = unknown (Unsupported if needed), True/False = word-ness of the char before the match start
    (False also covers 'start of text')."""

    def __init__(self, flags=0, left_word=False, drop_neg_lookahead=False):
        self.flags = flags
        self.left_word = left_word
        self.drop_neg_lookahead = drop_neg_lookahead

    # pure language of an item list (no right-context dependence allowed)
    def pure(self, items):
        items = list(items)
        return self.T(items, None, [])

    def T(self, items, K, left_items):
        """Language of (items followed by K).  K=None means 'pure' (context-free use: inside repeats);
        assertions that look to the right of the items then raise Unsupported.
        left_items: the items already matched to the left in this sequence (for look-behind/boundary)."""
        items = list(items)
        if not items:
            return K if K is not None else EPS
        (op, av), rest = items[0], items[1:]
        left2 = left_items + [items[0]]

        r = _item_ranges(op, av, self.flags)
        if r is not None:
            return cat(re_of_ranges(r), self.T(rest, K, left2))

        if op is sre_c.SUBPATTERN:
            sub = list(av[3])
            # flatten: group content then rest (groups have no semantic effect on language)
            if K is None and not rest:
                return self.T(sub, None, left_items)
            return self.T(sub + rest, K, left_items)

        if op is sre_c.BRANCH:
            branches = [list(b) for b in av[1]]
            return alt(*[self.T(b + rest, K, left_items) for b in branches])

        if op in (sre_c.MAX_REPEAT, sre_c.MIN_REPEAT):
            lo, hi, sub = av
            sub = list(sub)
            body = self.T(sub, None, [])  # must be pure
            if hi is sre_c.MAXREPEAT:
                if lo == 0:
                    rep = star(body)
                elif lo == 1:
                    rep = plus(body)
                else:
                    rep = cat(*([body] * lo), star(body))
            else:
                if hi > 64:
                    raise Unsupported("large bounded repeat")
                rep = loop(body, lo, hi) if not (lo == 0 and hi == 1) else opt(body)
            return cat(rep, self.T(rest, K, left2))

        if op is sre_c.AT:
            if av in (sre_c.AT_BEGINNING, sre_c.AT_BEGINNING_STRING):
                if left_items and not _nullable(left_items, self.flags):
                    return EMPTY
                return self.T(rest, K, left_items)
            if av is sre_c.AT_END_STRING:
                if K is None:
                    raise Unsupported("\\Z in pure context")
                return inter(self.T(rest, K, left_items), EPS)
            if av is sre_c.AT_END:
                if K is None:
                    raise Unsupported("$ in pure context")
                if self.flags & re.MULTILINE:
                    return inter(self.T(rest, K, left_items), alt(EPS, cat(lit("\n"), SIGMA_STAR)))
                return inter(self.T(rest, K, left_items), alt(EPS, lit("\n")))
            if av is sre_c.AT_BOUNDARY or av is sre_c.AT_NON_BOUNDARY:
                if K is None:
                    raise Unsupported("\\b in pure context")
                if left_items:
                    lr = _last_char_ranges(left_items, self.flags)
                    if lr is None or _nullable(left_items, self.flags):
                        raise Unsupported("\\b with unknown left neighbour")
                    if _is_subset(lr, word_ranges()):
                        lw = True
                    elif inter_ranges(lr, word_ranges()) == []:
                        lw = False
                    else:
                        raise Unsupported("\\b with mixed left neighbour")
                else:
                    lw = self.left_word
                    if lw is None:
                        raise Unsupported("\\b with unknown left context")
                w = re_of_ranges(word_ranges())
                nw = re_of_ranges(neg_ranges(word_ranges()))
                next_word = cat(w, SIGMA_STAR)
                next_nonword = alt(EPS, cat(nw, SIGMA_STAR))
                want_boundary = av is sre_c.AT_BOUNDARY
                if lw == want_boundary:
                    cond = next_nonword
                else:
                    cond = next_word
                return inter(self.T(rest, K, left_items), cond)
            raise Unsupported(f"AT {av}")

        if op in (sre_c.ASSERT, sre_c.ASSERT_NOT):
            direction, sub = av
            sub = list(sub)
            if direction > 0:  # look-ahead
                if K is None:
                    if op is sre_c.ASSERT_NOT and self.drop_neg_lookahead:
                        return self.T(rest, K, left_items)
                    raise Unsupported("look-ahead in pure context")
                la = cat(self.T(sub, None, []), SIGMA_STAR)
                cont = self.T(rest, K, left_items)
                return inter(cont, la if op is sre_c.ASSERT else comp(la))
            # look-behind: single character class, applied to the pure language of left_items
            raise Unsupported("look-behind must be handled by sequence splitting")

        raise Unsupported(f"op {op}")

    def seq(self, items, K):
        """Translate an item list, handling look-behinds by splitting the sequence at them."""
        items = list(items)
        # find first look-behind at top level of this sequence
        for i, (op, av) in enumerate(items):
            if op in (sre_c.ASSERT, sre_c.ASSERT_NOT) and av[0] < 0:
                sub = list(av[1])
                if len(sub) != 1:
                    raise Unsupported("look-behind longer than one char")
                r = _item_ranges(sub[0][0], sub[0][1], self.flags)
                if r is None:
                    raise Unsupported("look-behind of non-class")
                left = [it for it in items[:i] if it[0] is not sre_c.AT]
                if not left or _nullable(left, self.flags):
                    raise Unsupported("look-behind after nullable prefix")
                ends = cat(SIGMA_STAR, re_of_ranges(r))
                head = self.seq(items[:i], EPS)  # language of the prefix alone
                head = inter(head, ends if op is sre_c.ASSERT else comp(ends))
                tail = self.seq(items[i + 1 :], K)
                # NB: assertions in the tail that look left see the prefix as non-nullable word-ness unknown
                return cat(head, tail)
        return self.T(self._expand(items), K, [])

    def _expand(self, items):
        """Rewrite groups/repeats whose bodies contain look-behinds into plain z3 via recursion markers."""
        out = []
        for op, av in items:
            if self._has_lookbehind([(op, av)]):
                out.append((_PRE, self._pre(op, av)))
            else:
                out.append((op, av))
        return out

    def _has_lookbehind(self, items):
        for op, av in items:
            if op in (sre_c.ASSERT, sre_c.ASSERT_NOT):
                if av[0] < 0:
                    return True
                if self._has_lookbehind(list(av[1])):
                    return True
            elif op is sre_c.SUBPATTERN:
                if self._has_lookbehind(list(av[3])):
                    return True
            elif op in (sre_c.MAX_REPEAT, sre_c.MIN_REPEAT):
                if self._has_lookbehind(list(av[2])):
                    return True
            elif op is sre_c.BRANCH:
                if any(self._has_lookbehind(list(b)) for b in av[1]):
                    return True
        return False

    def _pre(self, op, av):
        """Pure language of a group/repeat/branch that contains look-behinds."""
        if op is sre_c.SUBPATTERN:
            return self.seq(list(av[3]), EPS)
        if op in (sre_c.MAX_REPEAT, sre_c.MIN_REPEAT):
            lo, hi, sub = av
            body = self.seq(list(sub), EPS)
            if hi is sre_c.MAXREPEAT:
                return star(body) if lo == 0 else (plus(body) if lo == 1 else cat(*([body] * lo), star(body)))
            if lo == 0 and hi == 1:
                return opt(body)
            return loop(body, lo, hi)
        if op is sre_c.BRANCH:
            return alt(*[self.seq(list(b), EPS) for b in av[1]])
        raise Unsupported("look-behind in unsupported position")


class _Pre:
    def __repr__(self):
        return "PRE"


_PRE = _Pre()

# teach T about precomputed items
_orig_T = Translator.T


def _T(self, items, K, left_items):
    items = list(items)
    if items and items[0][0] is _PRE:
        return cat(items[0][1], self.T(items[1:], K, left_items + [(sre_c.ANY, None)]))
    return _orig_T(self, items, K, left_items)


Translator.T = _T


def _parse(pattern):
    if isinstance(pattern, re.Pattern):
        flags = pattern.flags & ~re.UNICODE
        src = pattern.pattern
    else:
        flags = 0
        src = pattern
    p = sre_parse.parse(src, flags)
    return list(p), flags


def full_lang(pattern, *, match_semantics="match"):
    """Language {t : pattern.match(t) succeeds and consumes... } for *anchored* patterns (`^...\\Z` or `^...$`):
    the set of whole strings t for which pattern.match(t) is not None."""
    items, flags = _parse(pattern)
    tr = Translator(flags=flags, left_word=False)
    # whole remaining text after the match may be anything unless the pattern anchors it
    return tr.seq(items, SIGMA_STAR)


def fullmatch_lang(pattern):
    """{t : pattern.fullmatch(t)}"""
    items, flags = _parse(pattern)
    tr = Translator(flags=flags, left_word=False)
    return tr.seq(items, EPS)


def prefix_lang(pattern, *, left_word=False, drop_neg_lookahead=False):
    """{t : pattern.match(t) is not None} for a text t that starts at the match position; the character before
    it has word-ness `left_word` (False = non-word or start of text)."""
    items, flags = _parse(pattern)
    tr = Translator(flags=flags, left_word=left_word, drop_neg_lookahead=drop_neg_lookahead)
    return tr.seq(items, SIGMA_STAR)


# ----------------------------------------------------------------------------
# alphabet reduction (minterms) and compilation to z3
# ----------------------------------------------------------------------------
def _collect_classes(ast, acc: set):
    k = ast[0]
    if k == "cls":
        acc.add(ast[1])
    elif k in ("cat", "alt", "inter"):
        for x in ast[1]:
            _collect_classes(x, acc)
    elif k in ("comp", "star"):
        _collect_classes(ast[1], acc)
    elif k == "loop":
        _collect_classes(ast[1], acc)


_PREFERRED = "abAZ_09.-/ <>,:$\"\\\n"


def minterms(classes):
    """Partition [0, MAXCH] by membership in each class; return {class: tuple(representatives)} and all reps.
    Exact for emptiness / inclusion of regular languages built from these classes (chars in one minterm are
    indistinguishable to every class)."""
    classes = sorted(classes)
    cuts = {0, MAXCH + 1}
    for c in classes:
        for a, b in c:
            cuts.add(a)
            cuts.add(b + 1)
    cuts = sorted(cuts)
    import bisect

    sig_to_rep: dict = {}
    starts = [[a for a, _ in c] for c in classes]
    for i in range(len(cuts) - 1):
        lo = cuts[i]
        if lo > MAXCH:
            break
        sig = []
        for ci, c in enumerate(classes):
            j = bisect.bisect_right(starts[ci], lo) - 1
            sig.append(j >= 0 and c[j][0] <= lo <= c[j][1])
        sig = tuple(sig)
        if sig not in sig_to_rep:
            sig_to_rep[sig] = lo
    reps_all = sorted(sig_to_rep.values())
    per_class = {}
    for ci, c in enumerate(classes):
        per_class[c] = tuple(sorted(rep for sig, rep in sig_to_rep.items() if sig[ci]))
    return per_class, reps_all


class Compiler:
    def __init__(self, asts):
        acc: set = set()
        for a in asts:
            _collect_classes(a, acc)
        acc.add(((0, MAXCH),))
        self.per_class, self.reps = minterms(acc)
        self._cache: dict = {}
        self.sigma = self._chars(self.reps)
        self.sigma_star = z3.Star(self.sigma)

    def _chars(self, cps):
        cps = sorted(cps)
        if not cps:
            return z3.Empty(z3.ReSort(z3.StringSort()))
        # compress consecutive code points into ranges
        parts = []
        i = 0
        while i < len(cps):
            j = i
            while j + 1 < len(cps) and cps[j + 1] == cps[j] + 1:
                j += 1
            if i == j:
                parts.append(z3.Re(z3.StringVal(chr(cps[i]))))
            else:
                parts.append(z3.Range(z3.StringVal(chr(cps[i])), z3.StringVal(chr(cps[j]))))
            i = j + 1
        return parts[0] if len(parts) == 1 else z3.Union(*parts)

    def c(self, ast):
        key = ast
        if key in self._cache:
            return self._cache[key]
        k = ast[0]
        if k == "eps":
            r = z3.Re(z3.StringVal(""))
        elif k == "empty":
            r = z3.Empty(z3.ReSort(z3.StringSort()))
        elif k == "cls":
            r = self._chars(self.per_class[ast[1]])
        elif k == "cat":
            r = z3.Concat(*[self.c(x) for x in ast[1]])
        elif k == "alt":
            r = z3.Union(*[self.c(x) for x in ast[1]])
        elif k == "inter":
            r = z3.Intersect(*[self.c(x) for x in ast[1]])
        elif k == "comp":
            r = z3.Intersect(z3.Complement(self.c(ast[1])), self.sigma_star)
        elif k == "star":
            r = z3.Star(self.c(ast[1]))
        elif k == "loop":
            r = z3.Loop(self.c(ast[1]), ast[2], ast[3])
        else:
            raise Unsupported("ast " + k)
        self._cache[key] = r
        return r


# ----------------------------------------------------------------------------
# queries
# ----------------------------------------------------------------------------
class Query:
    """Accounting for the z3 queries of this process."""

    count = 0
    seconds = 0.0
    log: list = []

    @classmethod
    def reset(cls):
        cls.count = 0
        cls.seconds = 0.0
        cls.log = []


def solve_words(name, langs, extra=None, timeout_ms=60000, exclude=()):
    """Is there a tuple of strings (x0..xn-1) with xi in langs[i] (regex ASTs) and extra(xs) (z3 constraints)?
    Returns (status, [strings]|None).  Alphabet-reduced: witnesses are built from minterm representatives."""
    comp_ = Compiler(langs)
    xs = [z3.String(f"x{i}") for i in range(len(langs))]
    s = z3.Solver()
    s.set("timeout", timeout_ms)
    for x, lang in zip(xs, langs):
        s.add(z3.InRe(x, comp_.c(lang)))
    if extra is not None:
        for c in extra(xs):
            s.add(c)
    for words in exclude:  # earlier witnesses that did not reproduce: ask for a different one
        s.add(z3.Or(*[x != z3.StringVal(w) for x, w in zip(xs, words)]))
    t0 = time.perf_counter()
    r = s.check()
    dt = time.perf_counter() - t0
    Query.count += 1
    Query.seconds += dt
    status = str(r)
    model = None
    if status == "sat":
        m = s.model()
        model = [_z3_str(m.eval(x, model_completion=True)) for x in xs]
    Query.log.append(
        {"query": name, "result": status, "seconds": round(dt, 4), "model": model, "alphabet": len(comp_.reps)}
    )
    return status, model


def _z3_str(v) -> str:
    try:
        s = v.as_string()
    except Exception:
        return str(v)
    # decode z3 escapes \u{XXXX}
    return re.sub(r"\\u\{([0-9a-fA-F]+)\}", lambda m: chr(int(m.group(1), 16)), s)


def nonempty(name, lang, timeout_ms=60000):
    """Is the regular language non-empty?  -> ('sat', witness) | ('unsat', None) | ('unknown', None)"""
    st, model = solve_words(name, [lang], None, timeout_ms)
    return st, (model[0] if model else None)


def subset(name, a, b, timeout_ms=60000):
    """a ⊆ b ?  returns ('unsat',None) when included, ('sat', witness in a\\b) otherwise."""
    return nonempty(name, inter(a, comp(b)), timeout_ms)


def member(s: str, lang) -> bool:
    """Concrete membership through the same compilation (translator validation only)."""
    comp_ = Compiler([lang, lit(s)])
    sol = z3.Solver()
    sol.set("timeout", 20000)
    sol.add(z3.InRe(z3.StringVal(s), comp_.c(lang)))
    r = str(sol.check())
    if r == "unknown":
        raise Unsupported("membership unknown")
    return r == "sat"
