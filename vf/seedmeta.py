"""Write seeded/<id>/meta.json from confirm.json (demo clean/patched, pinned suite) and the latest check run against the seed
(scratch/reseed_<id>.json, produced by vf/seedcheck.py).  usage: python3 vf/seedmeta.py <id> [...]"""
import json, os, sys

def main():
    for sid in sys.argv[1:]:
        d = os.path.join("seeded", sid)
        conf = json.load(open(os.path.join(d, "confirm.json")))
        rs = os.path.join("scratch", f"reseed_{sid}.json")
        notes = open(os.path.join(d, "notes.md")).read().splitlines()
        meta = {
            "property": sid.split("-")[0],
            "breaks": [l for l in notes if l.strip()][:6],
            "needs_to_manifest": "see notes.md (section on what it needs to manifest)",
            "confirmed": {"demo_passes_on_clean_tree": conf.get("demo_clean_rc") == 0, "demo_fails_with_patch": conf.get("demo_patched_rc", 0) != 0,
                          "pinned_suite_still_passes": conf.get("suite_missing_with_patch") == []},
            "ran": ["python3 vf/seedcheck.py seeded/%s %s --worktree <scratch worktree> (demo on clean / patched worktree; pinned suite (BASELINE stable_pass) with the patch; ./check %s --tier quick with VF_REPO=<patched worktree>; worktree removed afterwards)" % (sid, sid.split("-")[0], sid.split("-")[0])],
        }
        if os.path.exists(rs):
            r = json.load(open(rs))
            meta["check_result"] = {"exit": r.get("check_rc"), "lines": r.get("check_lines", [])[:6]}
            meta["detected"] = r.get("check_rc") == 1
        json.dump(meta, open(os.path.join(d, "meta.json"), "w"), indent=1, ensure_ascii=False)
        print(sid, meta["confirmed"], meta.get("detected"))

main()
