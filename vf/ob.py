"""Obligation helpers used by harness modules.

Harness convention for XH obligations: the harness function is a plain Python function with a PEP316
contract whose *return code* is
    0 = property violated on this path
    1 = property checked and held on this path (non-trivial)
    2 = path outside the claim (vacuous: input outside the stated bound / inside a listed known-finding family)
Main contract:  post: _ != 0   (must be CONFIRMED over all paths)
Reachability twin (generated): post: _ != 1   (must be REFUTED: some path reaches the real assertion)
"""
from __future__ import annotations

import json
import os
import subprocess
import sys
import time
import types
from pathlib import Path

ROOT = Path(__file__).resolve().parent.parent

VIOL, HELD, SKIP = 0, 1, 2


def pick(k, n, lo=0):
    """Concrete value of the bounded symbolic int k (lo <= k < lo+n) through a chain of explicit comparisons: every
    comparison is an ordinary binary decision of the path tree, so the tree has exactly n leaves for k and exhausts after
    n paths (crosshair.core.realize picks model values and needs super-linearly many paths to exhaust products)."""
    for i in range(lo, lo + n - 1):
        if k == i:
            return i
    return lo + n - 1


def pickb(b):
    return True if b else False


# ---------------------------------------------------------------------------
# known findings
# ---------------------------------------------------------------------------
_KF = None


def _load_kf():
    global _KF
    if _KF is None:
        p = ROOT / "known_findings.json"
        _KF = json.loads(p.read_text()) if p.exists() else {"findings": [], "fixed": []}
    return _KF


def kf_active(prop: str, fid: str) -> bool:
    """True iff known_findings.json lists finding `fid` for `prop` (then the family is excluded from the query).
    Always False in native replays (VF_NATIVE): a replay must see the real behaviour."""
    if os.environ.get("VF_NATIVE"):
        return False
    if fid in os.environ.get("VF_KF_IGNORE", "").split(","):
        return False  # self-test switch: behave as if the entry were not listed
    for f in _load_kf().get("findings", []):
        if f.get("id") == fid and prop in f.get("properties", [f.get("property")]):
            return True
    return False


def kf_entry(fid: str):
    for f in _load_kf().get("findings", []):
        if f.get("id") == fid:
            return f
    return None


# ---------------------------------------------------------------------------
def make_twin(fn, old="post: _ != 0", new="post: _ != 1"):
    g = types.FunctionType(fn.__code__, fn.__globals__, fn.__name__, fn.__defaults__, fn.__closure__)
    g.__doc__ = (fn.__doc__ or "").replace(old, new)
    g.__annotations__ = dict(fn.__annotations__)
    g.__kwdefaults__ = fn.__kwdefaults__
    g.__module__ = fn.__module__
    g.__qualname__ = fn.__qualname__
    assert g.__doc__ != fn.__doc__, "twin: contract line not found in " + fn.__name__
    return g


def native_call(fn, args: dict):
    """Run the harness natively on concrete args -> (code, exception_repr|None)."""
    try:
        return fn(**args), None
    except BaseException as e:  # noqa: BLE001 - replay reports everything
        return VIOL, f"{type(e).__name__}: {e}"


def write_replay(prop: str, ob_id: str, args: dict, note: str = "") -> str:
    d = ROOT / "replays"
    d.mkdir(exist_ok=True)
    safe = "".join(c if c.isalnum() or c in "-_." else "_" for c in ob_id)
    n = 0
    while True:
        p = d / f"{prop}-{safe}-{n}.json"
        if not p.exists():
            break
        n += 1
    p.write_text(json.dumps({"property": prop, "obligation": ob_id, "args": args, "note": note}, ensure_ascii=False, indent=1))
    return str(p)


def replay_in_subprocess(prop: str, ob_id: str, tier: str, args: dict, timeout=300):
    """Replay concrete args against the real, unstubbed code in a fresh interpreter.
    -> (reproduced: bool|None, text)"""
    env = dict(os.environ)
    env["PYTHONPATH"] = str(ROOT)
    if os.environ.get("VF_REPO"):
        env["PYTHONPATH"] = os.path.join(os.environ["VF_REPO"], "src") + os.pathsep + env["PYTHONPATH"]
    env["VF_NATIVE"] = "1"
    p = subprocess.run(
        [sys.executable, "-m", "vf.worker", "--native", prop, ob_id, tier, json.dumps(args, ensure_ascii=False)],
        cwd=str(ROOT),
        env=env,
        capture_output=True,
        text=True,
        timeout=timeout,
    )
    for line in reversed(p.stdout.strip().splitlines()):
        if line.startswith("NATIVE "):
            d = json.loads(line[len("NATIVE ") :])
            return d["code"] == VIOL, d.get("text", "")
    return None, "native replay failed: " + (p.stderr or p.stdout)[-800:]


# ---------------------------------------------------------------------------
# XH obligation
# ---------------------------------------------------------------------------
def xh_ob(
    prop,
    id,
    fn,
    *,
    timeout=60,
    bound="",
    functions=(),
    stubs=(),
    setup=None,
    replay=None,
    twin=True,
    twin_timeout=None,
    known=(),
    witnesses=(),
    tiers=("quick", "thorough"),
    per_path_timeout=None,
    optional=False,
):
    """optional: a *deepening* obligation (a larger bound than the property's claimed one).  If its path tree is not
    exhausted inside the budget the verdict is "not_exhausted": reported, the bound is not claimed, the exit code is
    unaffected.  A counterexample that reproduces is a violation like any other.
    known: finding ids whose family this harness excludes when listed; witnesses: [(fid, args, text)] concrete
    inputs of those findings, re-run natively through `replay or fn` to print KNOWN-FINDING lines."""

    def run(tier):
        from vf import xh

        if setup:
            setup()
        res = {"engine": "xh", "paths": 0, "queries": 0, "solver_s": 0.0, "known_findings": [], "replays": []}
        r = xh.run(fn, timeout=timeout, per_path_timeout=per_path_timeout)
        res["paths"] += r.paths
        res["queries"] += r.solver_calls
        res["solver_s"] += r.solver_s
        res["xh_wall_s"] = r.wall_s
        if r.status == "confirmed":
            res["verdict"] = "confirmed"
        elif r.status == "refuted":
            if r.args is None:
                res["verdict"] = "inconclusive"
                res["detail"] = "counterexample could not be parsed: " + r.detail
            else:
                rep, text = replay_in_subprocess(prop, id, tier, r.args)
                if rep:
                    res["verdict"] = "violated"
                    res["detail"] = f"counterexample {r.args!r} reproduced on the real code: {text}"
                    res["replays"].append(write_replay(prop, id, r.args, text))
                else:
                    res["verdict"] = "inconclusive"
                    res["detail"] = f"counterexample {r.args!r} did NOT reproduce natively ({text}); engine/stub discrepancy: {r.detail}"
        else:
            res["verdict"] = "not_exhausted" if optional else "inconclusive"
            res["detail"] = "not exhausted / unknown: " + r.detail
        # reachability twin
        if twin and res["verdict"] == "confirmed":
            t = make_twin(fn)
            tr = xh.run(t, timeout=twin_timeout or max(20, timeout / 3), per_path_timeout=per_path_timeout)
            res["paths"] += tr.paths
            res["queries"] += tr.solver_calls
            res["solver_s"] += tr.solver_s
            res["twin"] = {"status": tr.status, "args": tr.args}
            if tr.status == "refuted":
                res["reach_witnessed"] = True
                res["sample_models"] = [tr.args]
            else:
                res["verdict"] = "inconclusive"
                res["detail"] = "reachability twin not refuted (vacuous harness?): " + tr.status + " " + tr.detail
        # known-finding witnesses (concrete, native, unstubbed)
        for fid, args, text in witnesses:
            if kf_active(prop, fid):
                rep, t2 = replay_in_subprocess(prop, id, tier, args)
                if rep:
                    res["known_findings"].append(f"{fid}: {text}")
                else:
                    res.setdefault("stale_findings", []).append(f"{fid}: {args!r} no longer fails ({t2})")
        res["solver_s"] = round(res["solver_s"], 3)
        return res

    return {
        "id": id,
        "engine": "xh",
        "timeout": timeout + (twin_timeout or max(20, timeout / 3) if twin else 0),
        "bound": bound,
        "functions": list(functions),
        "stubs": list(stubs),
        "run": run,
        "native": (replay or fn),
        "tiers": tiers,
        "optional": optional,
    }


# ---------------------------------------------------------------------------
# RX obligation: a list of emptiness queries, each with a replay function
# ---------------------------------------------------------------------------
def rx_ob(prop, id, build, *, timeout=120, bound="", functions=(), stubs=(), tiers=("quick", "thorough")):
    """build() -> list of dict(name, langs=[ast..], extra=None|fn, replay=fn(words)->(bool reproduced, text),
    expect='unsat'|'sat', known=[(fid, text)] optional)"""

    def run(tier):
        from vf import rx

        rx.Query.reset()
        res = {"engine": "rx", "paths": 0, "known_findings": [], "replays": [], "sample_models": []}
        verdict = "confirmed"
        details = []
        try:
            queries = build()
        except rx.Unsupported as e:
            return {"engine": "rx", "verdict": "inconclusive", "detail": f"unsupported regex construct: {e}"}
        nonvac = 0
        for q in queries:
            st, model = rx.solve_words(q["name"], q["langs"], q.get("extra"), int(q.get("timeout_ms", 240000)))
            expect = q.get("expect", "unsat")
            if expect == "sat":
                # vacuity guard: the language we quantify over must be inhabited
                if st == "sat":
                    nonvac += 1
                    if len(res["sample_models"]) < 8:
                        res["sample_models"].append({q["name"]: model})
                else:
                    verdict = "inconclusive" if verdict != "violated" else verdict
                    details.append(f"{q['name']}: vacuity witness query returned {st}")
                continue
            if st == "unsat":
                continue
            if st == "sat":
                # the model language may be coarser than the real emitter/reader: enumerate further witnesses
                # (blocking the ones that do not reproduce) before giving up as inconclusive
                tried = []
                reproduced = False
                while True:
                    rep, text = q["replay"](model)
                    if rep:
                        reproduced = True
                        break
                    tried.append(list(model))
                    if len(tried) >= int(q.get("max_witnesses", 25)):
                        break
                    st2, model2 = rx.solve_words(q["name"] + f"/witness#{len(tried)+1}", q["langs"], q.get("extra"), int(q.get("timeout_ms", 240000)), exclude=tried)
                    if st2 != "sat":
                        break
                    model = model2
                if reproduced:
                    verdict = "violated"
                    details.append(f"{q['name']}: witness {model!r} reproduced: {text}")
                    res["replays"].append(write_replay(prop, id, {"query": q["name"], "words": model}, text))
                else:
                    if verdict != "violated":
                        verdict = "inconclusive"
                    details.append(f"{q['name']}: {len(tried)} witnesses (first {tried[0]!r}) did not reproduce on the real code ({text}): model too coarse")
            else:
                if verdict != "violated":
                    verdict = "inconclusive"
                details.append(f"{q['name']}: solver returned {st}")
        for q in queries:
            for fid, args, text, check in q.get("witnesses", []):
                if kf_active(prop, fid):
                    if check(args):
                        res["known_findings"].append(f"{fid}: {text}")
                    else:
                        res.setdefault("stale_findings", []).append(f"{fid}: {args!r} no longer fails")
        res["verdict"] = verdict
        res["detail"] = "; ".join(details)
        res["queries"] = rx.Query.count
        res["solver_s"] = round(rx.Query.seconds, 3)
        res["query_log"] = rx.Query.log[:80]
        res["reach_witnessed"] = nonvac > 0
        return res

    return {
        "id": id,
        "engine": "rx",
        "timeout": timeout,
        "bound": bound,
        "functions": list(functions),
        "stubs": list(stubs),
        "run": run,
        "tiers": tiers,
    }


def select(obs, tier):
    return [o for o in obs if tier in o.get("tiers", ("quick", "thorough"))]
