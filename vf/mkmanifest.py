"""Regenerates MANIFEST.json from the table below (kept in code so that it stays valid at all times)."""
import json, sys
from pathlib import Path
ROOT = Path(__file__).resolve().parent.parent

CHECKS = {
 "C04": dict(
   technique="z3 regular-language inclusion over the live lexer/emitter regex tables + CrossHair symbolic execution of needs_quotes/emit/tokenize-slice/Parser",
   text="RX: for every string of any length in each bare language of needs_quotes, every decimal int / finite repr(float) text and every quoted text, z3 shows the lexer's ordered patterns and identifier scanner read it back as the single expected token (unsat = holds for all lengths, chars <= U+2FFFF). XH: CrossHair exhausts all paths of the real needs_quotes (|v|<=3), escape->unescape through the STRING branch sliced from the real tokenize (|v|<=3), the whole tokenizer (|v|<=1) and the real Parser at the four value positions with symbolic token values. Bounded model checking of the real code; counterexamples are replayed through emit+parse before being reported.",
   note="Trusted: hand-transcribed ordered-choice skeleton of tokenize at one position (tables are read live), CPython int/float repr axioms, NFC fragment stub in whole-tokenizer lemma, CrossHair+z3 (engine patch for str ==, validated by replay).",
   ref="DESIGN.md §4 C04, §3"),
 "C08": dict(
   technique="CrossHair symbolic execution of the real constraint classes, chain and validator against a reference evaluator; z3 QF_BVFP lemma; z3 regex query for the DATE gate",
   text="Every *Constraint.evaluate, ConstraintChain.parse/evaluate/detect_conflicts and Validator._validate_section/_validate_unknown_fields is executed by CrossHair on symbolic values and parameters (strings <= 2-4 chars over all characters, unbounded ints, all value kinds, chains of 1-2 members from a 15-text pool in both separators, schemas of 2 fields x presence masks x unknown fields x all policies) and compared on every path with a reference evaluator written from the property text; path trees are exhausted, each harness has a reachability twin. The DATE regex gate is decided for all strings by z3; float(int) exactness below 2^53 by a bit-vector/FP lemma.",
   note="Trusted: reference evaluator in harness/C08.py; CPython datetime.fromisoformat (calendar arithmetic, C code) and float() parsing, which are exercised only on solver-indexed pools; NaN and symbolic float values outside the claim; error-message formatting elided by AST transformation.",
   ref="DESIGN.md §4 C08"),
 "C10": dict(
   technique="CrossHair symbolic execution of the real tool execute() bodies with symbolic flags and collaborator outcomes",
   text="The real ValidateTool.execute, WriteTool.execute (up to the write block, corrections_only) and EjectTool.execute run under CrossHair with every flag, profile spelling, input mode, schema-resolution outcome (builtin / file with or without fields / none / raises / frozen@ and latest resolution failing), parse outcome, validator outcome before and after repair, emit/compile failure as solver variables; on every path the envelope must carry validation_status in the three values, valid <=> VALIDATED, VALIDATED only with a schema applied and no blocking error, UNVALIDATED on any parse failure or unresolved schema, INVALID only with errors and schema name/version. Path trees exhausted. Real load_schema_by_name executed on all malformed names <= 4 chars.",
   note="Collaborators are stubs with symbolic outcomes (their own behaviour is decided under C01-C13); CLI wrappers and 'VALIDATED canonical is VALIDATED again' (C09 o C01) are not re-checked here.",
   ref="DESIGN.md §4 C10, §3 tool layer"),
 "C16": dict(
   technique="CrossHair symbolic execution of the real write paths over an in-memory file-system model with symbolic fault and kill schedule",
   text="The real file_ops.atomic_write_octave and the real WriteTool.execute (content / changes / normalize modes; parse/emit stage stubbed) run under CrossHair over vf/fsmodel.py. The step at which the process is killed, the steps and errno kinds of up to two injected failures, the mode bits and the scenario (new file, overwrite, missing parent directory, base_hash none / matching / stale) are solver variables; at the kill point and at every return the target must hold exactly its previous bytes (or be absent) or exactly the new text, an error return must leave target and mode identical with no temp file beside it (unless the injected failure hit that unlink), success must hash to the returned canonical_hash and keep the mode. Every path tree is exhausted; a harness-local direct-open mutant must be refuted by the same judge.",
   note="Trusted: the file-system model (POSIX subset, atomic os.replace, truncating open, data visible at flush/close); process-kill crash model only (no power-loss/fsync ordering, no NFS); SHA-256 as injective stub; path validation stubbed (C19).",
   ref="DESIGN.md §4 C16"),
 "C17": dict(
   technique="CrossHair symbolic execution over the file-system model: one inductive step from an arbitrary file state; second writer as an atomic install at a symbolic step",
   text="C17.a: from a symbolic pre-state (target absent / holding the content base_hash names / other content) one real call (WriteTool.execute in each mode, atomic_write_octave) with symbolic base_hash relation, corrections_only and one injected failure is compared with the register model: stale hash => E_HASH and identical file system, dry and failed calls leave files, directories and links identical, a successful install overwrote content hashing to base_hash, the tool object keeps no state (so one step stands for any history). C17.b: writer B's install is injected at every step of writer A's real run while both hold the same base_hash. Known findings (no lock: narrow re-check window; directories created before a later failure) are excluded as families inside the query, anything else is reported.",
   note="CAS claimed for files existing at call start (documented scope); file-system model and injective hash stub trusted; more than two writers and non-POSIX rename semantics outside the claim.",
   ref="DESIGN.md §4 C17"),
 "C19": dict(
   technique="z3 regex emptiness queries on the live name patterns + CrossHair symbolic execution of the real path validators and read/write paths over the file-system model",
   text="RX: the live SCHEMA_NAME_PATTERN (under .match semantics) and the frozen@sha256 reference pattern admit no '/', '\\', '.', NUL and exactly 64 hex digits, for strings of any length. XH: the three path validators, atomic_write_octave, WriteTool.execute, ValidateTool.execute(file_path) and validate_source_uri run under CrossHair over a model tree (symlinks to an outside directory and file, dangling file and directory symlinks, secrets outside the sandbox root) on paths assembled by symbolic index from 7 intermediate x 7 x 12 final segment kinds, absolute and relative: a '..' component, a symlink component (incl. last, incl. dangling) or a bad extension must be refused before any open/read/mkstemp/replace/unlink/mkdir, and no operation may touch a path resolving outside the root. resolve_hermetic_standard returns a path only when the (stubbed) content hash equals the digest.",
   note="Trusted: file-system model's symlink resolution; segment pools are finite (solver-chosen), NUL and over-long names and the macOS /private carve-out are outside the model; CLI wrappers call the same validators.",
   ref="DESIGN.md §4 C19"),
 "C11": dict(
   technique="CrossHair symbolic execution of the real repair functions (value level, tree walk, tool copy of the log) against the property's clauses",
   text="repair_value/_attempt_enum_casefold/_attempt_type_coercion run under CrossHair for each of six chain shapes on symbolic values (str <= 2 chars, any int, bool, None, literal zone, list), symbolic fix flag and ENUM lists whose unique/ambiguous/no-match cases are all reachable; numeric texts come from a 30-entry solver-indexed pool covering every notation named in the property (sign, leading zeros, underscores, padding, exponent, overflow to inf, nan/inf spellings, hex, non-ASCII digits). repair()/_repair_ast_node run on documents with keys chosen by symbolic index at four nesting depths: skeleton, META and unnamed values unchanged, one REPAIR-tier log entry per change with exact before/after, new value satisfies the motivating constraint, second repair is a no-op. ValidateTool copies each log entry once and calls repair only with fix. All path trees exhausted, reachability twins witnessed.",
   note="int()/float()/str.lower() of symbolic strings do not exhaust under CrossHair: numeric texts are pool-indexed and ENUM lists partly concrete (stated bounds). octave_write(lenient) and CLI --fix call the same repair().",
   ref="DESIGN.md §4 C11"),
 "C12": dict(
   technique="CrossHair symbolic execution of the real GBNF compiler pieces, judged by a reference GBNF reader transcribed from llama.cpp",
   text="A transcription of llama.cpp's grammar parser (vf/gbnf.py) is the well-formedness predicate (parses, root defined, every referenced rule defined, no rule twice, no empty alternative). CrossHair executes the real _escape_literal (all strings <= 3 chars: literal decodes to the value, never terminates early), _compile_enum/_compile_const (symbolic values), _sanitize_rule_name (all 1-char names) symbolically; compile_schema / compile_gbnf_from_meta run on schemas assembled by symbolic index from pools covering every sanitisation case (case/dot/slash/hyphen/underscore collisions, unicode, leading digit, structural names, quotes/backslashes), 35 chains, 6 schema names, name pairs and triples, all REGEX pattern texts <= 3 chars over a 15-char regex-significant alphabet, and CONTRACT lists read by the real parser. Listed finding rule-name-charset ('_' in rule names) is tolerated by the whole-grammar judge and re-confirmed by a witness; everything else is strict.",
   note="Trusted: the reference reader's fidelity to llama.cpp; pool-indexed obligations execute concretely per solver choice (bounded pools, stated); integrations (llama_cpp/outlines/vllm wrappers) pass the same grammar string through.",
   ref="DESIGN.md §4 C12"),
 "C13": dict(
   technique="z3 regular-language inclusion between compiled GBNF fragments and the lexer model; CrossHair on the CONST/ENUM compilation and chain evaluation",
   text="The TYPE[NUMBER]/RANGE and TYPE[BOOLEAN] fragments are read from the live compiler, parsed by the reference GBNF reader, translated to regular languages and shown by z3 (all derivations, any length) to be tokenised by the lexer model as exactly one NUMBER / BOOLEAN token (no earlier pattern fires, own pattern matches the whole text). For CONST and ENUM, CrossHair shows on symbolic constants (str <= 2 chars of any character, ints, bool, null; alone or with REQ/OPT) that the literal is exactly the canonical emission of the constant and that the chain accepts the constant, so reading the generated text back (C04) validates. The DATE/ISO8601 clause and the rule's leading ws are listed findings, re-confirmed by witnesses on every run.",
   note="Relies on C04 for 'canonical scalar text reads back as the scalar' and on C12's literal lemma; value text = derivation of the field's fragment; REGEX-decided fields are outside the property.",
   ref="DESIGN.md §4 C13"),
 "C14": dict(
   technique="CrossHair-driven execution of the real projector and eject converters over solver-indexed documents; leaf-set oracle from the source model",
   text="projector.project/_filter_fields and the eject converters (_ast_to_dict, _convert_block, _convert_value, _ast_to_markdown, _block_to_markdown) run on a skeleton with a top-level assignment, nested blocks, a section marker, list / inline-map / literal-zone / holographic / null values and META, whose six key sites are chosen by the solver from one key of each keep-set and a neutral key (all 3^6 combinations) for each of the five mode strings. On every path: projected leaves are a subset of the source's (path, value) leaves, canonical/authoring keep all of them with lossy=false, anything omitted implies lossy=true, the keep-sets keep exactly the subtrees of their keys, and the dict (JSON/YAML) and Markdown views hold the same leaves as the filtered AST.",
   note="Pool-indexed (finite, stated) rather than fully symbolic keys because the filter hashes keys; JSON/YAML text dumping and the OCTAVE text of the projection (emit, C01/C02) are not re-read; CLI `octave eject` has its own older converter twins (not claimed); duplicate sibling keys: listed finding.",
   ref="DESIGN.md §4 C14"),
 "C18": dict(
   technique="CrossHair symbolic execution of the real change-application code and emitter (Absent sites, frame condition by object identity and by emitted lines)",
   text="WriteTool._apply_changes/_apply_mutations/_is_delete_sentinel/_normalize_value_for_ast run under CrossHair on a document with top-level keys, a block and a section that reuse the same key names and META, with a request of one or two entries whose key is chosen by the solver from existing keys, a fresh key, META.X and META and whose operation ranges over DELETE, null, symbolic string (<= 2 chars), any int, list, dict, empty string and empty list: unnamed nodes are the same objects with the same value objects in the same order, nested same-named keys are untouched, DELETE removes exactly that key, null stays None and is distinct from \"\" and [], META requests merge. The emitted canonical lines of everything not named are compared before/after for every key x operation; Absent (with null as control) is placed at nine sites of a constructed AST and must never be emitted; the CLI --changes callback must hand the writer the same text as the tool.",
   note="Read-back of null / empty string / empty list as distinct values is C04/C01; request keys come from a finite pool because dict keys realise; sequences of requests follow from the one-step frame condition (no hidden state).",
   ref="DESIGN.md §4 C18"),
 "C05": dict(
   technique="CrossHair symbolic execution of the real fence detector, the fence-span branch sliced from tokenize, the Parser, the emitter's zone routes and every value pipeline, on symbolic zone content",
   text="_normalize_with_fence_detection/_evaluate_fence_line run under CrossHair on texts whose zone body is symbolic (<= 2 chars of ANY character for fence lengths 3, 4, 5 with/without tag and indentation; <= 4 chars for the plain layout; odd layouts at <= 1): exactly one span, the span's bytes identical to the input (tabs, backslashes, quotes, U+212B untouched), text before and after still NFC-normalised, marker/tag as written; nested (>= length) and unterminated fences give E007/E006. The fence-span branch of tokenize is lifted from the live source by AST slicing and executed on the detector's output: FENCE_OPEN/LITERAL_CONTENT/FENCE_CLOSE carry marker, tag and exactly the body, an indented fence reports its INDENT, scanning and line numbering resume after the zone. The real Parser and emit run on the real tokenizer's token layout for three skeletons (assignment value; bare block child first; bare child between siblings) with a symbolic LITERAL_CONTENT value <= 3 chars: fields equal the source, neighbours keep value and parent, output equals the expected canonical text. Three emission routes and six value pipelines (repair, write normalisation, eject JSON/Markdown, changes/mutations) leave the three fields untouched for symbolic content <= 4.",
   note="NFC replaced by the faithful-fragment stub; bodies longer than the bounds, fence length > 5 and octave_write's pre-lexing regex passes are outside the claim; listed finding zone-single-empty-line excluded as a family (body '' ) and re-confirmed by a witness.",
   ref="DESIGN.md §4 C05"),
 "C15": dict(
   technique="z3 disjointness queries on the emitter's scalar text languages + solver-indexed single-site mutations through the real sealer, emitter and reader",
   text="Tamper evidence reduces to emit being injective on content. RX: the emission languages of the scalar kinds (bare strings, derived from the live source of needs_quotes; quoted strings; decimal ints; finite float reprs; true/false/null; list and fence openers) are shown pairwise disjoint for texts of any length by z3, so a value or value-type change always changes the text (quoting itself is injective by C04's escape/un-escape lemma). The real seal_document/verify_seal/extract_seal/_remove_seal_section then run on a rich and a minimal document for every mutation of a catalogue (value replacement incl. type-only change, rename, insert/delete/swap/move nodes at every container, envelope name, META add/change/delete, frontmatter, separator, one hash character), chosen by the solver, in memory and through emit + the real reader: NO_SEAL before sealing, VERIFIED after, re-sealing gives the same seal and text, every mutation gives INVALID; seven cosmetic respellings of the sealed text still verify.",
   note="Real SHA-256 (collision freedom assumed); mutation runs are concrete per solver choice (finite catalogue, stated); comments and trailing comments are not in the property's list of sealed content; CLI seal/--verify-seal are thin wrappers.",
   ref="DESIGN.md §4 C15"),
 "C01": dict(
   technique="z3 regular-language inclusion (lexical layer) + CrossHair symbolic execution of the real Parser and emitter on the canonical token layout of content models",
   text="(a) Lexical layer, unbounded in length: the bare-string language is derived from the live source of needs_quotes (vf/nqmodel.py) and z3 shows every bare text has a structure the reader re-joins and that no token pattern fires at any segment start; decimal ints, finite float reprs, true/false/null and every quoted text re-lex as one token. (b) Structure layer: for two hand-built content models (rich: frontmatter, sentinel, envelope, nested META, separator, every value kind in every position, nested blocks with target, section markers, duplicate keys, all four comment positions; deep: 3 levels, empty block, sections) the real tokenizer lays out the canonical text, each content site in turn carries a symbolic value, and the real Parser + emitter must return the model and re-emit exactly the model's canonical text. (c) Lemmas: list layout is a function of content and both layouts read back as the same items; _strip_yaml_frontmatter inverts the emitter's frontmatter prefix; holographic re-emission: listed finding with witness.",
   note="One symbolic site per path (|v| <= 2), product over sites under the stated independence argument; keys from a solver-indexed pool (the parser hashes keys); token substitution rests on the lexical layer; shapes beyond the two models and the CLI plumbing (same parse/emit) are outside the claim.",
   ref="DESIGN.md §4 C01, §6"),
 "C02": dict(
   technique="CrossHair symbolic execution of the real Parser on the real tokenizer's token layout of hand-built content models; field-by-field oracle independent of the parser",
   text="The expected content is the hand-built AST itself (never derived from the parser). The complete real reader must return it for the canonical text of both models; then every STRING, IDENTIFIER-value (symbolic, |v| <= 2-3) and COMMENT site (|v| <= 2) and every key site (8 keys chosen by the solver: fresh, one letter, duplicate of a sibling, parent's name, META field, constructor name) is substituted in turn in the token layout and the real Parser's result is compared field by field (envelope, sentinel, META incl. nested level, separator, keys, value kind and type, order, parentage, targets, section ids/annotations, leading/trailing/orphan/document comments) with the model holding that value.",
   note="Same bounds and independence argument as C01; frontmatter content is compared on the concrete read-back only; octave_eject(json) as a second view is C14.",
   ref="DESIGN.md §4 C02"),
 "C03": dict(
   technique="CrossHair on the real lenient Parser + emitter over token layouts with symbolic indent widths / blank lines / flags; z3 regex queries for strict profile and alias table",
   text="From the real tokenizer's layout of each content model's canonical text, the layout freedoms become solver variables: the indentation width of each depth (any integers 0 < w1 < w2 < w3 < w4 <= 40), extra blank lines after any line, END present or absent, plain words quoted or bare, alias marks on operators; emit(parse(tokens)) must equal the canonical bytes on every path. Every single, every pair and all eleven documented text-level rewrites together go through the complete real reader and must converge. z3 shows (any length) that bare value texts contain no ASCII alias, blank or tab and quoted texts no raw tab/newline, and that each alias is matched by a pattern of the same token type as its Unicode operator. CrossHair checks the emitter's line structure (2*depth spaces, '::' unspaced, no trailing blank) on symbolic values and comments for assignment, block, section and META emission.",
   note="Inline-space skipping is the lexer's whitespace branch (exercised concretely); triple-quoted text beyond the token flag outside the claim.",
   ref="DESIGN.md §4 C03"),
 "C07": dict(
   technique="CrossHair symbolic execution of the real Parser's receipt sites and the tools' receipt mapping; solver-indexed runs of the real tokenizer",
   text="Parser: K:: followed by 1-3 value tokens of solver-chosen kinds with symbolic positions yields exactly one multi_word_coalesce receipt iff there are >= 2 tokens, positioned at the first token and listing exactly the words; bare-line, unclosed-list and duplicate-key sites likewise. Lexer: 12 lines covering every alias of the live table, triple quotes, aliases inside quotes/comments and repeated occurrences, with solver-chosen leading newlines and indentation, go through the real tokenizer: one normalization record per alias occurrence with its text, line and column, none for Unicode spellings. Canonical layouts with a symbolic site produce no rewrite receipt. octave_validate.repairs and octave_write's two mapping functions copy each of 0-3 receipts of solver-chosen kinds exactly once with text and position.",
   note="W_DUPLICATE_KEY treated as a diagnostic (canonical text with duplicate keys keeps it); strict write mode dropping parser receipts is a listed finding; whole documents with many sites through the tokenizer end to end are outside the claim.",
   ref="DESIGN.md §4 C07"),
}
NOT_APPLICABLE = {
 "C06": "quantifies over interpreter configurations (PYTHONHASHSEED, locale, cwd, process boundaries, task interleavings); symbolic execution runs inside one configuration and cannot make these symbolic (DESIGN.md §4 C06)",
}
PENDING = "check not built yet in this round; see DESIGN.md for the plan"

def main():
    props = [json.loads(l)["id"] for l in open(ROOT / "properties.jsonl")]
    checks = []
    for pid, c in CHECKS.items():
        checks.append({
            "property_id": pid,
            "quick_cmd": f"./check {pid} --tier quick",
            "thorough_cmd": f"./check {pid} --tier thorough",
            "evidence_file": f"evidence/{pid}.json",
            "replay_cmd_template": f"./check {pid} --replay {{path}}",
            "engine": "solver",
            "level_claimed": {"category": "model_checking", "text": c["text"], "design_ref": c["ref"]},
            "level_note": c["note"],
            "technique": c["technique"],
        })
    na = []
    for pid in props:
        if pid in CHECKS:
            continue
        na.append({"property_id": pid, "reason": NOT_APPLICABLE.get(pid, PENDING)})
    m = {
        "version": 1,
        "setup_cmd": "vf/bootstrap.sh",
        "hooks": {"guard": "OCTAVE_MCP_VERIF", "enable": "no source hooks: stubs are bound into module namespaces by the harness process (OCTAVE_MCP_VERIF=1 is exported to workers but read by nothing in /repo)",
                  "baseline_off_cmd": "python3 vf/baseline.py", "source_commits": [], "add_only": True},
        "engines": [
            {"name": "XH", "path": "vf/xh.py", "serves_properties": sorted(CHECKS), "kind_free_text": "CrossHair 0.0.110 symbolic execution (z3 per path) of the real Python functions, path tree exhausted within stated bounds"},
            {"name": "RX", "path": "vf/rx.py", "serves_properties": sorted(CHECKS), "kind_free_text": "sre->z3 regex translation of the live re patterns; language inclusion/emptiness by z3 sequence theory after minterm alphabet reduction"},
        ],
        "checks": checks,
        "not_applicable": na,
        "notes": "Exit 0 held within bounds / 1 VIOLATION (reproduced on real code) / 3 inconclusive. Genuine defects fixed in /repo: see known_findings.json 'fixed'.",
    }
    (ROOT / "MANIFEST.json").write_text(json.dumps(m, indent=1) + "\n")

if __name__ == "__main__":
    main()
