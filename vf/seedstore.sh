#!/bin/sh
# usage: vf/seedstore.sh <PROP> <k>   (seed in /tmp/seed/<PROP>/seed_<k>) -> /verif/seeded/<PROP>-<k>/
P=$1; K=$2; SRC=/tmp/seed/$P/seed_$K; DST=/verif/seeded/$P-$K
mkdir -p $DST && cp $SRC/patch.diff $SRC/demo.py $DST/ && cp $SRC/notes.md $DST/notes.md 2>/dev/null
python3 /verif/vf/seedcheck.py $SRC $P --worktree /tmp/seed/$P > $DST/confirm.json 2>&1
python3 - "$DST" "$P" <<'PY'
import json, sys
dst, prop = sys.argv[1], sys.argv[2]
try: c = json.load(open(dst + "/confirm.json"))
except Exception as e: c = {"error": "confirm.json unreadable: %s" % e}
notes = open(dst + "/notes.md").read() if __import__("os").path.exists(dst + "/notes.md") else ""
meta = {"property": prop, "breaks": notes.strip().splitlines()[:12], "needs_to_manifest": "see notes.md",
        "confirmed": {"demo_passes_on_clean_tree": c.get("demo_clean_rc") == 0, "demo_fails_with_patch": c.get("demo_patched_rc") not in (0, None),
                      "pinned_suite_still_passes": c.get("suite_missing_with_patch") == []},
        "ran": ["python3 vf/seedcheck.py <seed> %s --worktree <scratch worktree>  (demo clean/patched, pinned suite with patch, ./check %s --tier quick on /repo with the patch applied, reverted afterwards)" % (prop, prop)],
        "check_result": {"exit": c.get("check_rc"), "lines": c.get("check_lines")}, "detected": c.get("check_rc") == 1}
json.dump(meta, open(dst + "/meta.json", "w"), indent=1, ensure_ascii=False)
print(dst, "detected=", meta["detected"], meta["confirmed"])
PY
