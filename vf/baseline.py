"""Run the repository's pinned test suite and compare with /root/.vp/BASELINE.json (stable_pass set).
usage: python vf/baseline.py [--jobs N]   exit 0 iff every stable_pass test still passes."""
import json, subprocess, sys, tempfile, os, xml.etree.ElementTree as ET

def main():
    jobs = "8"
    if "--jobs" in sys.argv:
        jobs = sys.argv[sys.argv.index("--jobs") + 1]
    base = json.load(open("/root/.vp/BASELINE.json"))
    want = set(base["stable_pass"])
    with tempfile.TemporaryDirectory() as td:
        xml = os.path.join(td, "r.xml")
        cmd = ["/venv/bin/python", "-m", "pytest", "-q", "-p", "no:cacheprovider", "--timeout=900",
               "--continue-on-collection-errors", f"--junitxml={xml}", "-n", jobs]
        env = dict(os.environ); env.pop("OCTAVE_MCP_VERIF", None)
        p = subprocess.run(cmd, cwd="/repo", capture_output=True, text=True, env=env)
        passed = set()
        for tc in ET.parse(xml).getroot().iter("testcase"):
            if not any(ch.tag in ("failure", "error", "skipped") for ch in tc):
                passed.add(f"{tc.get('classname')}::{tc.get('name')}")
    missing = sorted(want - passed)
    print(f"baseline stable_pass={len(want)} passed_now={len(passed)} missing={len(missing)}")
    for m in missing[:40]:
        print("  MISSING", m)
    return 0 if not missing else 1

if __name__ == "__main__":
    sys.exit(main())
