"""Worker process: runs exactly one obligation (or one native replay) and prints a RESULT/NATIVE json line."""
from __future__ import annotations

import importlib
import json
import sys
import time
import traceback
from pathlib import Path

ROOT = Path(__file__).resolve().parent.parent
sys.path.insert(0, str(ROOT))
sys.setrecursionlimit(10000)


def _find(prop, ob_id, tier):
    mod = importlib.import_module(f"harness.{prop}")
    for t in (tier, "thorough", "quick"):
        for o in mod.obligations(t):
            if o["id"] == ob_id:
                return o
    raise KeyError(ob_id)


def main(argv):
    if argv and argv[0] == "--native":
        _, prop, ob_id, tier, args_json = argv
        o = _find(prop, ob_id, tier)
        from vf.ob import native_call

        code, exc = native_call(o["native"], json.loads(args_json))
        text = exc or f"harness returned {code}"
        print("NATIVE " + json.dumps({"code": code, "text": text}, ensure_ascii=False))
        return 0
    if argv and argv[0] == "--replay":
        d = json.loads(Path(argv[1]).read_text())
        o = _find(d["property"], d["obligation"], "thorough")
        if "native" in o and "words" not in d["args"]:
            from vf.ob import native_call

            code, exc = native_call(o["native"], d["args"])
            print(f"replay {d['property']}/{d['obligation']} args={d['args']!r}: code={code} {exc or ''}")
            print("REPRODUCED" if code == 0 else "NOT REPRODUCED")
            return 1 if code == 0 else 0
        # RX replay: re-run the query's replay function
        mod = importlib.import_module(f"harness.{d['property']}")
        rep, text = mod.replay_rx(d["obligation"], d["args"]["query"], d["args"]["words"])
        print(f"replay {d['property']}/{d['obligation']} words={d['args']['words']!r}: {text}")
        print("REPRODUCED" if rep else "NOT REPRODUCED")
        return 1 if rep else 0

    prop, ob_id, tier = argv
    t0 = time.perf_counter()
    from vf import srcxform

    srcxform.install()  # symbolic runs only: diagnostic message formatting elided (see srcxform.DESCRIPTION)
    try:
        o = _find(prop, ob_id, tier)
        res = o["run"](tier)
    except BaseException as e:  # noqa: BLE001
        res = {"verdict": "inconclusive", "detail": "harness error: " + "".join(traceback.format_exception(e))[-1500:]}
    res["id"] = ob_id
    res["wall_s"] = round(time.perf_counter() - t0, 2)
    if res.get("engine") == "xh":
        res.setdefault("stubs", [])
        res["stubs"] = list(res["stubs"]) + [srcxform.DESCRIPTION]
        res["srcxform_sites"] = dict(srcxform.COUNTS)
    print("RESULT " + json.dumps(res, ensure_ascii=False, default=str))
    return 0


if __name__ == "__main__":
    sys.exit(main(sys.argv[1:]))
