"""Confirm a seeded change and run the property's check against it.
usage: python3 vf/seedcheck.py <seed_dir> <property> [--worktree DIR] [--skip-suite] [--tier quick]
 seed_dir holds patch.diff and demo.py.  Steps:
  1. demo on the unmodified worktree must PASS (exit 0), with the patch applied must FAIL (exit != 0)
  2. the pinned test suite must still pass with the patch (stable_pass of BASELINE.json)
  3. apply to /repo, run ./check <property>, revert; report exit code and VIOLATION lines
Prints a JSON summary."""
import json, os, subprocess, sys, xml.etree.ElementTree as ET, tempfile

def sh(cmd, cwd=None, env=None, timeout=7200):
    p = subprocess.run(cmd, shell=True, cwd=cwd, env=env, capture_output=True, text=True, timeout=timeout)
    return p.returncode, p.stdout + p.stderr

def suite(wt):
    base = json.load(open("/root/.vp/BASELINE.json")); want = set(base["stable_pass"])
    with tempfile.TemporaryDirectory() as td:
        xml = os.path.join(td, "r.xml")
        env = dict(os.environ, PYTHONPATH=wt + "/src")
        sh(f"/venv/bin/python -m pytest -q -p no:cacheprovider --timeout=900 --continue-on-collection-errors --junitxml={xml} -n 8", cwd=wt, env=env)
        passed = set()
        for tc in ET.parse(xml).getroot().iter("testcase"):
            if not any(ch.tag in ("failure", "error", "skipped") for ch in tc):
                passed.add(f"{tc.get('classname')}::{tc.get('name')}")
    return sorted(want - passed)

def main():
    seed, prop = sys.argv[1], sys.argv[2]
    wt = sys.argv[sys.argv.index("--worktree") + 1] if "--worktree" in sys.argv else None
    tier = sys.argv[sys.argv.index("--tier") + 1] if "--tier" in sys.argv else "quick"
    patch = os.path.abspath(os.path.join(seed, "patch.diff")); demo = os.path.abspath(os.path.join(seed, "demo.py"))
    out = {"seed": seed, "property": prop}
    if wt:
        env = dict(os.environ, PYTHONPATH=wt + "/src")
        sh("git checkout -- src", cwd=wt)
        rc0, o0 = sh(f"/venv/bin/python {demo}", cwd=wt, env=env, timeout=900)
        rc, o = sh(f"git apply {patch}", cwd=wt)
        if rc: out["error"] = "patch does not apply to worktree: " + o; print(json.dumps(out, indent=1)); return 2
        rc1, o1 = sh(f"/venv/bin/python {demo}", cwd=wt, env=env, timeout=900)
        out["demo_clean_rc"], out["demo_patched_rc"] = rc0, rc1
        out["demo_patched_tail"] = o1.strip().splitlines()[-3:]
        if "--skip-suite" not in sys.argv:
            out["suite_missing_with_patch"] = suite(wt)
        sh("git checkout -- src", cwd=wt)
    if "--no-check" in sys.argv:
        print(json.dumps(out, indent=1, ensure_ascii=False)); return 0
    # run the property's check against the patched scratch worktree (VF_REPO), never against /repo itself
    rc, o = sh(f"git apply {patch}", cwd=wt)
    if rc: out["error"] = "patch does not apply: " + o; print(json.dumps(out, indent=1)); return 2
    try:
        rc, o = sh(f"./check {prop} --tier {tier}", cwd="/verif", env=dict(os.environ, VF_REPO=wt, VF_EVIDENCE_DIR="/tmp/seed/evidence"), timeout=10800)
    finally:
        sh("git checkout -- src", cwd=wt)
    out["check_rc"] = rc
    out["check_lines"] = [l for l in o.splitlines() if l.startswith(("VIOLATION", "INCONCLUSIVE", prop + " ["))][:12]
    print(json.dumps(out, indent=1, ensure_ascii=False)); return 0

if __name__ == "__main__":
    sys.exit(main())
