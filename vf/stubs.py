"""Environment stubs bound into the analysed modules' namespaces (no repo edits).  Every stub is part of the claim
and is listed in the evidence of the obligations that use it."""
from __future__ import annotations

import types
import unicodedata as _real_ud

NFC_STUB = "lexer.unicodedata.normalize -> faithful fragment (identity except U+212B->U+00C5); category/combining real"
ERRFMT_STUB = "LexerError/ParserError.__init__ keep line/column/error_code, drop message formatting"


def _nfc_fragment(form, s):
    # one genuine NFC rewrite stays observable: ANGSTROM SIGN -> LATIN CAPITAL LETTER A WITH RING ABOVE
    return s.replace("\u212b", "\u00c5")


def stub_nfc():
    from octave_mcp.core import lexer

    shim = types.SimpleNamespace(
        normalize=_nfc_fragment,
        category=_real_ud.category,
        combining=_real_ud.combining,
        is_normalized=_real_ud.is_normalized,
    )
    lexer.unicodedata = shim


def nfc_expected(s: str) -> str:
    """What the oracle expects a string to look like after the lexer's NFC pass, using whichever normaliser the
    lexer module is currently bound to (stub under XH, real unicodedata natively)."""
    from octave_mcp.core import lexer

    return lexer.unicodedata.normalize("NFC", s)


def stub_error_formatting():
    from octave_mcp.core import lexer, parser

    def lex_init(self, message="", line=0, column=0, error_code="E005"):
        self.message = "<elided>"
        self.line = line
        self.column = column
        self.error_code = error_code
        Exception.__init__(self, error_code)

    def par_init(self, message="", token=None, error_code="E001"):
        self.message = "<elided>"
        self.token = token
        self.error_code = error_code
        self.code = error_code
        Exception.__init__(self, error_code)

    lexer.LexerError.__init__ = lex_init
    parser.ParserError.__init__ = par_init


def lexer_stubs():
    stub_nfc()
    stub_error_formatting()
