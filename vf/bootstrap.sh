#!/bin/sh
# Idempotent, offline, flock-guarded: builds /verif/.venv = venv(/venv python 3.12)
# + .pth to /venv site-packages (repo deps + editable octave-mcp -> /repo/src)
# + crosshair-tool, z3-solver, cvc5 from the offline wheelhouse.
set -e
HERE="$(cd "$(dirname "$0")/.." && pwd)"
VENV="$HERE/.venv"
STAMP="$VENV/.vf-ready-2"
[ -f "$STAMP" ] && exit 0
mkdir -p "$HERE/evidence" "$HERE/replays"
exec 9>"$HERE/.bootstrap.lock"
flock 9
[ -f "$STAMP" ] && exit 0
rm -rf "$VENV"
/venv/bin/python -m venv "$VENV"
SP="$VENV/lib/python3.12/site-packages"
printf '%s\n' "import site; site.addsitedir('/venv/lib/python3.12/site-packages')" > "$SP/zz_venv_overlay.pth"
PIP_NO_INDEX=1 "$VENV/bin/pip" install -q --no-index --find-links /opt/veriftools/wheels \
    crosshair-tool z3-solver cvc5 >/dev/null 2>"$VENV/pip.err" || { cat "$VENV/pip.err"; exit 2; }
"$VENV/bin/python" - <<'EOF'
import crosshair, z3, octave_mcp, os
assert os.path.realpath(octave_mcp.__file__).startswith('/repo/'), octave_mcp.__file__
EOF
touch "$STAMP"
