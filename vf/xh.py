"""CrossHair driver (API, not CLI).

One call = one obligation: a harness function with a PEP316 docstring contract is
executed symbolically by CrossHair (z3 per path).  The verdict is

  confirmed  - path tree exhausted, postcondition true on every path
  refuted    - a counterexample (concrete argument values) was produced
  unknown    - anything else (timeout, not exhausted, precondition unreachable, ...)

Engine patches (see DESIGN.md 2.4) are installed by `install_engine_patches()`.
Solver-call accounting wraps z3.Solver.check under NoTracing.
"""
from __future__ import annotations

import ast
import collections
import re
import time
from dataclasses import dataclass, field
from typing import Any, Callable, Optional

_PATCHED = False
SOLVER_STATS = {"calls": 0, "seconds": 0.0}


def install_engine_patches() -> None:
    global _PATCHED
    if _PATCHED:
        return
    _PATCHED = True
    import z3
    from crosshair.libimpl import builtinslib as bl
    from crosshair.tracers import NoTracing

    # --- patch 1: representation independent str equality -----------------
    # LazyIntSymbolicStr.__eq__ delegates to `_codepoints.__eq__`, which is wrong
    # when one side is a SliceView of a SequenceConcatenation (lexer idiom
    # matched_text[1:-1]); compare length + elementwise instead.
    Lazy = bl.LazyIntSymbolicStr

    def _points(x):
        if isinstance(x, Lazy):
            return x._codepoints
        if isinstance(x, str):
            return [ord(c) for c in x]
        return None

    def _eq(self, other):
        with NoTracing():
            op = _points(other)
            if op is None:
                if isinstance(other, bl.AnySymbolicStr):
                    op = None
                else:
                    return NotImplemented
            mp = self._codepoints
        if op is None:
            op = [ord(c) for c in other]
        if len(mp) != len(op):
            return False
        for a, b in zip(mp, op):
            if a != b:
                return False
        return True

    def _ne(self, other):
        r = _eq(self, other)
        if r is NotImplemented:
            return r
        return not r

    Lazy.__eq__ = _eq
    Lazy.__ne__ = _ne
    Lazy.__hash__ = lambda self: hash(self.__str__())

    # --- solver accounting --------------------------------------------------
    _orig_check = z3.Solver.check

    def _check(self, *a):
        with NoTracing():
            import time as _t

            t0 = _t.perf_counter()
            try:
                return _orig_check(self, *a)
            finally:
                SOLVER_STATS["calls"] += 1
                SOLVER_STATS["seconds"] += _t.perf_counter() - t0

    z3.Solver.check = _check


@dataclass
class XhResult:
    status: str  # confirmed | refuted | unknown
    detail: str = ""
    args: Optional[dict] = None  # concrete counterexample arguments (refuted)
    paths: int = 0
    solver_calls: int = 0
    solver_s: float = 0.0
    wall_s: float = 0.0
    messages: list = field(default_factory=list)


def _contract(fn: Callable):
    """pre:/post: lines of fn.__doc__ (read from the live attribute, so harness factories can parameterise them)."""
    pre, post = [], []
    for line in (fn.__doc__ or "").splitlines():
        line = line.strip()
        if line.startswith("pre:"):
            pre.append(line[4:].strip())
        elif line.startswith("post:"):
            post.append(line[5:].strip())
    return pre, post


def run(fn: Callable, timeout: float = 60.0, per_path_timeout: Optional[float] = None) -> XhResult:
    """Symbolically execute `fn` under the pre:/post: contract in its docstring."""
    install_engine_patches()
    import inspect
    from typing import get_type_hints

    from crosshair.condition_parser import ConditionExpr, ConditionExprType, Conditions
    from crosshair.core import ConditionCheckable
    from crosshair.core_and_libs import run_checkables  # noqa: F401 (loads libimpl plugins)
    from crosshair.fnutil import FunctionInfo
    from crosshair.options import DEFAULT_OPTIONS, AnalysisKind, AnalysisOptionSet
    from crosshair.statespace import MessageType
    from crosshair.tracers import NoTracing

    pre_src, post_src = _contract(fn)
    if len(post_src) != 1:
        return XhResult("unknown", f"harness {fn.__name__} needs exactly one post: line")
    sig = inspect.signature(fn)
    hints = get_type_hints(fn)
    sig = sig.replace(
        parameters=[p.replace(annotation=hints.get(n, p.annotation)) for n, p in sig.parameters.items()],
        return_annotation=hints.get("return", sig.return_annotation),
    )
    fname = inspect.getsourcefile(fn) or "<harness>"
    try:
        line0 = inspect.getsourcelines(fn)[1]
    except OSError:
        line0 = 0
    g = fn.__globals__

    def mk(src):
        code = compile(src, f"<contract of {fn.__name__}>", "eval")
        return lambda bindings: eval(code, g, dict(bindings))  # noqa: S307

    captured: dict = {}

    def maker(args, ret, overrides):
        with NoTracing():
            captured["args"] = dict(args.arguments)
            captured["ret"] = ret
        return (f"{fn.__name__}(" + ", ".join(f"{k}={v!r}" for k, v in args.arguments.items()) + ")", repr(ret))

    conds = Conditions(
        fn=fn,
        src_fn=fn,
        pre=[ConditionExpr(ConditionExprType.PRECONDITION, mk(s), fname, line0, s) for s in pre_src],
        post=[ConditionExpr(ConditionExprType.POSTCONDITION, mk(post_src[0]), fname, line0, post_src[0])],
        raises=frozenset(),
        sig=sig,
        mutable_args=None,
        fn_syntax_messages=[],
        counterexample_description_maker=maker,
    )
    stats: collections.Counter = collections.Counter()
    opts = DEFAULT_OPTIONS.overlay(
        AnalysisOptionSet(
            analysis_kind=[AnalysisKind.PEP316],
            per_condition_timeout=float(timeout),
            per_path_timeout=float(per_path_timeout if per_path_timeout else max(5.0, timeout / 4)),
            max_uninteresting_iterations=10**9,
            report_all=True,
            stats=stats,
        )
    )
    c0, s0 = SOLVER_STATS["calls"], SOLVER_STATS["seconds"]
    t0 = time.perf_counter()
    msgs = list(ConditionCheckable(FunctionInfo.from_fn(fn), opts, conds).analyze())
    wall = time.perf_counter() - t0
    res = XhResult(
        "unknown",
        paths=int(stats.get("num_paths", 0)),
        solver_calls=SOLVER_STATS["calls"] - c0,
        solver_s=round(SOLVER_STATS["seconds"] - s0, 3),
        wall_s=round(wall, 3),
        messages=[(m.state.name, m.message) for m in msgs],
    )
    states = [m.state for m in msgs]
    bad = [m for m in msgs if m.state in (MessageType.POST_FAIL, MessageType.EXEC_ERR, MessageType.POST_ERR)]
    if bad:
        res.status = "refuted"
        res.detail = bad[0].message
        res.args = captured.get("args")
        return res
    if states and all(s == MessageType.CONFIRMED for s in states):
        res.status = "confirmed"
        return res
    res.detail = "; ".join(f"{m.state.name}: {m.message}" for m in msgs) or "no verdict"
    return res
