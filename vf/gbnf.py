"""Reference GBNF reader: a transcription of llama.cpp's grammar parser (parse_rule / parse_alternates /
parse_sequence / parse_char / parse_space / parse_name) used as a well-formedness predicate and as the front end of
the GBNF -> regex-AST translation (C13).

strict_names=True  : rule names are llama.cpp word characters only  [a-zA-Z0-9-]
strict_names=False : '_' is additionally tolerated (lets the checks look past the listed finding 'rule-name-charset')
"""
from __future__ import annotations


class GBNFError(Exception):
    pass


class Reader:
    def __init__(self, text: str, strict_names: bool = True):
        self.s = text
        self.strict = strict_names
        self.rules = {}  # name -> alternates (list of sequences; sequence = list of elements)
        self.order = []
        self.duplicates = []
        self.refs = []  # (from_rule, to_rule)
        self.empty_alts = []

    # -- lexical helpers ---------------------------------------------------------------------------------------------
    def _word(self, c):
        return ("a" <= c <= "z") or ("A" <= c <= "Z") or ("0" <= c <= "9") or c == "-" or (c == "_" and not self.strict)

    def space(self, pos, newline_ok):
        s = self.s
        n = len(s)
        while pos < n and (s[pos] in " \t#" or (newline_ok and s[pos] in "\r\n")):
            if s[pos] == "#":
                while pos < n and s[pos] not in "\r\n":
                    pos += 1
            else:
                pos += 1
        return pos

    def name(self, pos):
        s = self.s
        start = pos
        while pos < len(s) and self._word(s[pos]):
            pos += 1
        if pos == start:
            raise GBNFError(f"expecting name at {start}: {s[start:start+20]!r}")
        return s[start:pos], pos

    def char(self, pos):
        s = self.s
        if pos >= len(s):
            raise GBNFError("unexpected end of input")
        if s[pos] == "\\":
            if pos + 1 >= len(s):
                raise GBNFError("unexpected end of input in escape")
            e = s[pos + 1]
            if e in "xuU":
                width = {"x": 2, "u": 4, "U": 8}[e]
                hexs = s[pos + 2 : pos + 2 + width]
                if len(hexs) != width or any(h not in "0123456789abcdefABCDEF" for h in hexs):
                    raise GBNFError(f"expecting {width} hex chars at {pos}")
                return chr(int(hexs, 16)) if int(hexs, 16) < 0x110000 else "?", pos + 2 + width
            if e == "t":
                return "\t", pos + 2
            if e == "r":
                return "\r", pos + 2
            if e == "n":
                return "\n", pos + 2
            if e in '\\"[]':
                return e, pos + 2
            raise GBNFError(f"unknown escape at {pos}: \\{e}")
        return s[pos], pos + 1

    # -- grammar -------------------------------------------------------------------------------------------------------
    def sequence(self, pos, rule, nested):
        s = self.s
        n = len(s)
        seq = []
        while pos < n:
            c = s[pos]
            if c == '"':
                pos += 1
                lit = []
                while True:
                    if pos >= n:
                        raise GBNFError("unterminated literal")
                    if s[pos] == '"':
                        break
                    ch, pos = self.char(pos)
                    lit.append(ch)
                pos = self.space(pos + 1, nested)
                seq.append(("lit", "".join(lit)))
            elif c == "[":
                pos += 1
                neg = False
                if pos < n and s[pos] == "^":
                    neg = True
                    pos += 1
                ranges = []
                while True:
                    if pos >= n:
                        raise GBNFError("unterminated character class")
                    if s[pos] == "]":
                        break
                    a, pos = self.char(pos)
                    b = a
                    if pos + 1 < n and s[pos] == "-" and s[pos + 1] != "]":
                        b, pos = self.char(pos + 1)
                    ranges.append((ord(a), ord(b)))
                pos = self.space(pos + 1, nested)
                seq.append(("cls", neg, tuple(ranges)))
            elif self._word(c):
                nm, pos = self.name(pos)
                pos = self.space(pos, nested)
                self.refs.append((rule, nm))
                seq.append(("ref", nm))
            elif c == "(":
                pos = self.space(pos + 1, True)
                alts, pos = self.alternates(pos, rule, True)
                if pos >= n or s[pos] != ")":
                    raise GBNFError(f"expecting ')' at {pos}")
                pos = self.space(pos + 1, nested)
                seq.append(("grp", alts))
            elif c == ".":
                pos = self.space(pos + 1, nested)
                seq.append(("any",))
            elif c in "*+?":
                if not seq:
                    raise GBNFError(f"expecting preceding item to */+/? at {pos}")
                pos = self.space(pos + 1, nested)
                seq[-1] = ("rep", seq[-1], {"*": (0, None), "+": (1, None), "?": (0, 1)}[c])
            elif c == "{":
                if not seq:
                    raise GBNFError(f"expecting preceding item to {{ at {pos}")
                pos = self.space(pos + 1, nested)
                start = pos
                while pos < n and s[pos].isdigit() and s[pos].isascii():
                    pos += 1
                if pos == start:
                    raise GBNFError("expecting an int in {}")
                lo = int(s[start:pos])
                pos = self.space(pos, nested)
                hi = lo
                if pos < n and s[pos] == ",":
                    pos = self.space(pos + 1, nested)
                    start = pos
                    while pos < n and s[pos].isdigit() and s[pos].isascii():
                        pos += 1
                    hi = int(s[start:pos]) if pos > start else None
                    pos = self.space(pos, nested)
                if pos >= n or s[pos] != "}":
                    raise GBNFError("expecting '}'")
                pos = self.space(pos + 1, nested)
                seq[-1] = ("rep", seq[-1], (lo, hi))
            else:
                break
        return seq, pos

    def alternates(self, pos, rule, nested):
        alts = []
        seq, pos = self.sequence(pos, rule, nested)
        alts.append(seq)
        while pos < len(self.s) and self.s[pos] == "|":
            pos = self.space(pos + 1, True)
            seq, pos = self.sequence(pos, rule, nested)
            alts.append(seq)
        for a in alts:
            if not a:
                self.empty_alts.append(rule)
        return alts, pos

    def rule(self, pos):
        nm, pos = self.name(pos)
        pos = self.space(pos, False)
        if self.s[pos : pos + 3] != "::=":
            raise GBNFError(f"expecting ::= at {pos}: {self.s[pos:pos+20]!r}")
        pos = self.space(pos + 3, True)
        alts, pos = self.alternates(pos, nm, False)
        if nm in self.rules:
            self.duplicates.append(nm)
        else:
            self.order.append(nm)
        self.rules[nm] = alts
        s = self.s
        if pos < len(s) and s[pos] == "\r":
            pos += 2 if s[pos + 1 : pos + 2] == "\n" else 1
        elif pos < len(s) and s[pos] == "\n":
            pos += 1
        elif pos < len(s):
            raise GBNFError(f"expecting newline or end at {pos}: {s[pos:pos+20]!r}")
        return self.space(pos, True)

    def parse(self):
        pos = self.space(0, True)
        while pos < len(self.s):
            pos = self.rule(pos)
        return self


def problems(text: str, strict_names: bool = True) -> list[str]:
    """All well-formedness problems of a grammar text, per the property: parses, root defined, every referenced rule
    defined, no rule defined twice, no empty alternative."""
    r = Reader(text, strict_names)
    try:
        r.parse()
    except GBNFError as e:
        return [f"syntax: {e}"]
    except IndexError:
        return ["syntax: unexpected end of input"]
    out = []
    if "root" not in r.rules:
        out.append("root undefined")
    for frm, to in r.refs:
        if to not in r.rules:
            out.append(f"undefined rule {to!r} referenced from {frm!r}")
    for d in r.duplicates:
        out.append(f"rule {d!r} defined twice")
    for e in r.empty_alts:
        out.append(f"empty alternative in {e!r}")
    return sorted(set(out))


def fragment_problems(fragment: str, strict_names: bool = False) -> list[str]:
    """Well-formedness of a right-hand-side fragment in isolation: must parse as alternates up to the end, reference no
    rule, contain no empty alternative."""
    text = "root ::= " + fragment + "\n"
    r = Reader(text, strict_names)
    try:
        r.parse()
    except GBNFError as e:
        return [f"syntax: {e}"]
    except IndexError:
        return ["syntax: unexpected end of input"]
    out = []
    if r.order != ["root"]:
        out.append("fragment spills into another rule")
    for frm, to in r.refs:
        out.append(f"references rule {to!r}")
    for e in r.empty_alts:
        out.append("empty alternative")
    return sorted(set(out))


def to_rx(alts, rules=None, depth=0):
    """Translate parsed alternates into a vf.rx regex AST (non-recursive rule references are inlined)."""
    from vf import rx

    if depth > 12:
        raise GBNFError("recursive rule: not regular")

    def el(e):
        k = e[0]
        if k == "lit":
            return rx.lit(e[1])
        if k == "cls":
            rs = [(a, b) for a, b in e[2]]
            return rx.cls(rx.neg_ranges(rx.norm_ranges(rs))) if e[1] else rx.cls(rs)
        if k == "any":
            return rx.SIGMA
        if k == "grp":
            return to_rx(e[1], rules, depth + 1)
        if k == "ref":
            if not rules or e[1] not in rules:
                raise GBNFError("undefined rule " + e[1])
            return to_rx(rules[e[1]], rules, depth + 1)
        if k == "rep":
            inner = el(e[1])
            lo, hi = e[2]
            if hi is None:
                return rx.star(inner) if lo == 0 else (rx.plus(inner) if lo == 1 else rx.cat(*([inner] * lo), rx.star(inner)))
            if (lo, hi) == (0, 1):
                return rx.opt(inner)
            return rx.loop(inner, lo, hi)
        raise GBNFError("element " + k)

    return rx.alt(*[rx.cat(*[el(e) for e in seq]) for seq in alts])


def fragment_lang(fragment: str):
    r = Reader("root ::= " + fragment + "\n", False).parse()
    return to_rx(r.rules["root"], r.rules)
