"""Obligation scheduler: runs the obligations of one property in fresh worker processes,
aggregates verdicts, writes evidence, prints VIOLATION / KNOWN-FINDING lines, sets the exit code.

Exit codes: 0 held (apart from listed known findings) | 1 violation reproduced on the real code |
3 inconclusive (solver unknown, path tree not exhausted in budget, engine self-test failed,
non-reproducing counterexample, harness error).
"""
from __future__ import annotations

import argparse
import concurrent.futures as cf
import importlib
import json
import os
import subprocess
import sys
import time
from pathlib import Path

ROOT = Path(__file__).resolve().parent.parent
PY = str(ROOT / ".venv" / "bin" / "python")
NCPU = int(os.environ.get("VERIF_JOBS", "16"))


def harness_module(prop: str):
    sys.path.insert(0, str(ROOT))
    return importlib.import_module(f"harness.{prop}")


def list_obligations(prop: str, tier: str):
    mod = harness_module(prop)
    return mod.obligations(tier)


def _run_worker(prop: str, ob_id: str, tier: str, timeout: float) -> dict:
    env = dict(os.environ)
    env["PYTHONPATH"] = str(ROOT) + os.pathsep + env.get("PYTHONPATH", "")
    if os.environ.get("VF_REPO"):
        # analyse another checkout (seeded-change testing in a scratch worktree); default is /repo via /venv's editable install
        env["PYTHONPATH"] = os.path.join(os.environ["VF_REPO"], "src") + os.pathsep + env["PYTHONPATH"]
    env["PYTHONHASHSEED"] = "0"
    env["OCTAVE_MCP_VERIF"] = "1"
    t0 = time.perf_counter()
    try:
        p = subprocess.run(
            [PY, "-m", "vf.worker", prop, ob_id, tier],
            cwd=str(ROOT),
            env=env,
            capture_output=True,
            text=True,
            timeout=timeout,
        )
    except subprocess.TimeoutExpired:
        return {
            "id": ob_id,
            "verdict": "inconclusive",
            "detail": f"worker exceeded hard timeout {timeout}s",
            "wall_s": round(time.perf_counter() - t0, 2),
        }
    out = p.stdout.strip().splitlines()
    for line in reversed(out):
        if line.startswith("RESULT "):
            try:
                res = json.loads(line[len("RESULT ") :])
                res.setdefault("wall_s", round(time.perf_counter() - t0, 2))
                return res
            except json.JSONDecodeError:
                break
    return {
        "id": ob_id,
        "verdict": "inconclusive",
        "detail": "worker produced no result (rc=%s): %s" % (p.returncode, (p.stderr or p.stdout)[-1500:]),
        "wall_s": round(time.perf_counter() - t0, 2),
    }


def run_property(prop: str, tier: str) -> int:
    t_start = time.perf_counter()
    seed = int(os.environ.get("VERIF_SEED", "0") or 0)
    mod = harness_module(prop)
    obs = mod.obligations(tier)
    meta = getattr(mod, "META", {})
    (ROOT / "evidence").mkdir(exist_ok=True)
    (ROOT / "replays").mkdir(exist_ok=True)

    results = []
    # longest first
    order = sorted(obs, key=lambda o: -o.get("timeout", 60))
    with cf.ThreadPoolExecutor(max_workers=NCPU) as ex:
        futs = {
            ex.submit(_run_worker, prop, o["id"], tier, o.get("timeout", 60) * 1.5 + 90): o for o in order
        }
        for f in cf.as_completed(futs):
            o = futs[f]
            r = f.result()
            r["id"] = o["id"]
            for k in ("engine", "bound", "functions", "stubs", "claim", "out_of_bound"):
                if k in o and k not in r:
                    r[k] = o[k]
            results.append(r)
    results.sort(key=lambda r: r["id"])

    violations = []
    inconclusive = []
    not_exhausted = []
    known_lines = []
    for r in results:
        v = r.get("verdict")
        if v == "violated":
            violations.append(r)
        elif v in ("confirmed", "known"):
            pass
        elif v == "not_exhausted":
            not_exhausted.append(r)
        else:
            inconclusive.append(r)
        for k in r.get("known_findings", []):
            known_lines.append(k)

    for k in sorted(set(known_lines)):
        print(f"KNOWN-FINDING: property={prop} {k}")

    n_viol = 0
    for r in violations:
        for path in r.get("replays", []) or ["(no replay file)"]:
            print(f"VIOLATION property={prop} replay={path}")
            n_viol += 1
        print(f"  obligation {r['id']}: {str(r.get('detail',''))[:400]}")
    for r in not_exhausted:
        print(f"NOT-EXHAUSTED property={prop} obligation={r['id']} (deepening obligation; its bound is not claimed): {str(r.get('detail',''))[:200]}")
    for r in inconclusive:
        print(f"INCONCLUSIVE property={prop} obligation={r['id']}: {str(r.get('detail',''))[:600]}")

    wall = time.perf_counter() - t_start
    evidence = build_evidence(prop, tier, seed, meta, results, n_viol, wall)
    evdir = Path(os.environ.get("VF_EVIDENCE_DIR", str(ROOT / "evidence")))
    evdir.mkdir(parents=True, exist_ok=True)
    (evdir / f"{prop}.json").write_text(json.dumps(evidence, indent=1, ensure_ascii=False) + "\n")

    confirmed = sum(1 for r in results if r.get("verdict") in ("confirmed", "known"))
    print(
        f"{prop} [{tier}] obligations={len(results)} confirmed={confirmed} violated={len(violations)} "
        f"inconclusive={len(inconclusive)} not_exhausted_optional={len(not_exhausted)} wall={wall:.1f}s"
    )
    if violations:
        return 1
    if inconclusive:
        return 3
    return 0


def build_evidence(prop, tier, seed, meta, results, n_viol, wall):
    paths = sum(int(r.get("paths", 0) or 0) for r in results)
    queries = sum(int(r.get("queries", 0) or 0) for r in results)
    solver_s = round(sum(float(r.get("solver_s", 0) or 0) for r in results), 3)
    confirmed = [r for r in results if r.get("verdict") in ("confirmed", "known")]
    nontrivial = [r for r in confirmed if r.get("reach_witnessed") or r.get("engine") in ("rx", "fp")]
    samples = []
    for r in results[:60]:
        samples.append(
            {
                k: r.get(k)
                for k in (
                    "id",
                    "engine",
                    "verdict",
                    "bound",
                    "functions",
                    "paths",
                    "queries",
                    "solver_s",
                    "wall_s",
                    "reach_witnessed",
                    "twin",
                    "sample_models",
                    "detail",
                )
                if r.get(k) not in (None, "", [])
            }
        )
    functions = sorted({f for r in results for f in (r.get("functions") or [])})
    stubs = sorted({s for r in results for s in (r.get("stubs") or [])})
    return {
        "property_id": prop,
        "tier": tier,
        "seed": seed,
        "level": "model_checking",
        "coverage": {
            "evaluations": max(1, paths + queries),
            "distinct_nontrivial": len(nontrivial),
            "rule": "one case = one explored symbolic path (CrossHair/z3) or one discharged SMT query; "
            "distinct_nontrivial = obligations confirmed within their bound whose reachability twin was "
            "witnessed (XH) or whose query is over a non-empty language (RX)",
            "samples": samples,
            "obligations": len(results),
            "discharged": len(confirmed),
            "deepening_not_exhausted": [r["id"] for r in results if r.get("verdict") == "not_exhausted"],
            "paths_explored": paths,
            "smt_queries": queries,
            "solver_seconds": solver_s,
            "functions_encoded": functions,
            "stubs_and_assumptions": stubs,
            "exhaustive": False,
            "explanation": meta.get("explanation", ""),
        },
        "assumptions": list(meta.get("assumptions", [])) + stubs,
        "wall_s": round(wall, 2),
        "violations": n_viol,
    }


def main(argv=None):
    ap = argparse.ArgumentParser()
    ap.add_argument("prop")
    ap.add_argument("--tier", default=os.environ.get("VERIF_TIER", "quick"))
    ap.add_argument("--replay")
    ap.add_argument("--list", action="store_true")
    ap.add_argument("--only")
    a = ap.parse_args(argv)
    if a.replay:
        env = dict(os.environ)
        env["PYTHONPATH"] = str(ROOT)
        p = subprocess.run([PY, "-m", "vf.worker", "--replay", a.replay], cwd=str(ROOT), env=env)
        return p.returncode
    if a.list:
        for o in list_obligations(a.prop, a.tier):
            print(o["id"], o.get("engine"), o.get("timeout"))
        return 0
    if a.only:
        r = _run_worker(a.prop, a.only, a.tier, 7200)
        print(json.dumps(r, indent=1, ensure_ascii=False))
        return 0
    return run_property(a.prop, a.tier)


if __name__ == "__main__":
    sys.exit(main())
