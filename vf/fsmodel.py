"""In-memory POSIX-subset file system with a symbolic fault / crash / external-writer schedule.

Bound into the analysed module's namespace in place of os / tempfile / open / Path.  Every model operation is one
*step*; at step == crash_at the process dies (ProcessKilled, a BaseException: no `except Exception` handler runs; the
model freezes, so `with`/`finally` blocks that still run during unwinding can no longer change anything);
at step in fail_at an OSError of the scheduled kind is raised instead of performing the operation; at step == ext_at an
external writer replaces the target's bytes first.  Data written through a file object sits in a process-local buffer
until flush()/close() (fsync is a durability no-op: the crash model is process kill, not power loss).
"""
from __future__ import annotations

import errno as _errno
from pathlib import PurePosixPath


class ProcessKilled(BaseException):
    pass


FAULTS = [
    (OSError, _errno.ENOSPC),
    (PermissionError, _errno.EACCES),
    (OSError, _errno.EIO),
    (InterruptedError, _errno.EINTR),
    (OSError, _errno.EROFS),
]


class FS:
    def __init__(self):
        self.files = {}  # path -> [content:str, mode:int]
        self.dirs = {"/"}
        self.links = {}  # path -> target (may dangle)
        self.fds = {}
        self.next_fd = 3
        self.step = 0
        self.crash_at = -1
        self.f1 = -1  # step at which fault k1 is injected (symbolic ints; compared, never hashed)
        self.k1 = 0
        self.f2 = -1
        self.k2 = 0
        self.failed_ops = []  # names of the operations that received an injected failure
        self.ext_at = -1
        self.ext_target = None
        self.ext_content = "EXTERNAL"
        self.dead = False
        self.log = []
        self.touched = []  # every path handed to a model operation (C19)
        self.mutations = []  # (op, path)
        self.replace_saw = None  # target content at the moment os.replace installed new content
        self.tmp_counter = 0

    # -- schedule ---------------------------------------------------------------------------------------------------
    def tick(self, op, path=None, can_fail=True):
        if self.dead:
            raise ProcessKilled()
        self.step += 1
        self.log.append(op)
        if path is not None:
            self.touched.append((op, str(path)))
        if self.step == self.ext_at and self.ext_target is not None and self.ext_target in self.files:
            self.files[self.ext_target][0] = self.ext_content
        if self.step == self.crash_at:
            self.dead = True
            raise ProcessKilled()
        if can_fail and (self.step == self.f1 or self.step == self.f2):
            k = self.k1 if self.step == self.f1 else self.k2
            cls, no = FAULTS[k]
            self.failed_ops.append(op)
            raise cls(no, "injected")

    # -- resolution -----------------------------------------------------------------------------------------------------
    def _resolve(self, path, follow_last=True, depth=0):
        """Follow symlinks component-wise (POSIX subset). Returns the resolved absolute path string."""
        if depth > 8:
            raise OSError(_errno.ELOOP, "loop")
        p = PurePosixPath(str(path))
        if not p.is_absolute():
            p = PurePosixPath("/cwd") / p
        cur = "/"
        parts = p.parts[1:]
        for i, part in enumerate(parts):
            if part == ".":
                continue
            if part == "..":
                cur = str(PurePosixPath(cur).parent)
                continue
            nxt = cur.rstrip("/") + "/" + part
            last = i == len(parts) - 1
            if nxt in self.links and (follow_last or not last):
                tgt = self.links[nxt]
                if not tgt.startswith("/"):
                    tgt = cur.rstrip("/") + "/" + tgt
                nxt = self._resolve(tgt, True, depth + 1)
            cur = nxt
        return cur

    def exists(self, path):
        r = self._resolve(path)
        return r in self.files or r in self.dirs

    def lexists(self, path):
        r = self._resolve(path, follow_last=False)
        return r in self.files or r in self.dirs or r in self.links

    def islink(self, path):
        return self._resolve(path, follow_last=False) in self.links

    # -- snapshot -------------------------------------------------------------------------------------------------------
    def visible(self):
        return ({k: (v[0], v[1]) for k, v in self.files.items()}, set(self.dirs), dict(self.links))

    # -- os-level operations --------------------------------------------------------------------------------------------
    def mkstemp(self, dir=None, suffix="", prefix="tmp", text=False):  # noqa: A002
        self.tick("mkstemp", dir)
        d = self._resolve(dir)
        if d not in self.dirs:
            raise FileNotFoundError(_errno.ENOENT, "no dir")
        self.tmp_counter += 1
        path = d.rstrip("/") + "/" + f"{prefix}{self.tmp_counter:04d}{suffix}"
        self.files[path] = ["", 0o600]
        self.mutations.append(("create", path))
        fd = self.next_fd
        self.next_fd += 1
        self.fds[fd] = path
        return fd, path

    def fchmod(self, fd, mode):
        self.tick("fchmod")
        self.files[self.fds[fd]][1] = mode

    def fdopen(self, fd, mode="r", encoding=None):
        self.tick("fdopen")
        return MFile(self, self.fds[fd], mode, fd)

    def fsync(self, fd):
        self.tick("fsync")

    def stat(self, path):
        self.tick("stat", path)
        r = self._resolve(path)
        if r in self.files:
            return _Stat(0o100000 | self.files[r][1])
        if r in self.dirs:
            return _Stat(0o040755)
        raise FileNotFoundError(_errno.ENOENT, "stat")

    def unlink(self, path):
        self.tick("unlink", path)
        r = self._resolve(path, follow_last=False)
        if r in self.links:
            del self.links[r]
        elif r in self.files:
            del self.files[r]
        else:
            raise FileNotFoundError(_errno.ENOENT, "unlink")
        self.mutations.append(("unlink", r))

    def replace(self, src, dst):
        self.tick("replace", dst)
        s = self._resolve(src, follow_last=False)
        d = self._resolve(dst, follow_last=False)
        if s not in self.files:
            raise FileNotFoundError(_errno.ENOENT, "replace")
        self.replace_saw = self.files[d][0] if d in self.files else None
        self.links.pop(d, None)
        self.files[d] = self.files.pop(s)
        self.mutations.append(("replace", d))

    def path_exists(self, path):
        self.tick("exists", path, can_fail=False)
        return self.exists(path)

    def open(self, path, mode="r", encoding=None, **kw):  # noqa: A003
        self.tick("open", path)
        r = self._resolve(path)
        if "w" in mode:
            parent = str(PurePosixPath(r).parent)
            if parent not in self.dirs:
                raise FileNotFoundError(_errno.ENOENT, "open w")
            if r in self.files:
                self.files[r][0] = ""  # truncation is immediately visible
            else:
                self.files[r] = ["", 0o644]
            self.mutations.append(("open-w", r))
            return MFile(self, r, mode, None)
        if r not in self.files:
            raise FileNotFoundError(_errno.ENOENT, "open r")
        return MFile(self, r, mode, None)

    def mkdir(self, path, parents=False, exist_ok=False):
        self.tick("mkdir", path)
        r = self._resolve(path)
        if r in self.dirs:
            if exist_ok:
                return
            raise FileExistsError(_errno.EEXIST, "mkdir")
        if r in self.files:
            raise FileExistsError(_errno.EEXIST, "mkdir")
        parent = str(PurePosixPath(r).parent)
        if parent not in self.dirs:
            if not parents:
                raise FileNotFoundError(_errno.ENOENT, "mkdir")
            self.mkdir(parent, True, True)
        self.dirs.add(r)
        self.mutations.append(("mkdir", r))


class _Stat:
    def __init__(self, mode):
        self.st_mode = mode


class MFile:
    def __init__(self, fs, path, mode, fd):
        self.fs = fs
        self.path = path
        self.mode = mode
        self.fd = fd if fd is not None else 99
        self.buf = ""
        self.closed = False

    def __enter__(self):
        return self

    def __exit__(self, *a):
        if not self.fs.dead:
            self.close()
        return False

    def write(self, s):
        self.fs.tick("write")
        self.buf += s
        return len(s)

    def flush(self):
        self.fs.tick("flush")
        self._commit()

    def _commit(self):
        if self.buf and self.path in self.fs.files:
            self.fs.files[self.path][0] += self.buf
        self.buf = ""

    def fileno(self):
        return self.fd

    def read(self):
        self.fs.tick("read")
        return self.fs.files[self.path][0] if self.path in self.fs.files else ""

    def close(self):
        if self.closed:
            return
        self.fs.tick("close")
        self._commit()
        self.closed = True


def make_namespace(fs: FS):
    """Objects to bind as os / tempfile / open / Path in the module under analysis."""
    from types import SimpleNamespace

    class MPath(PurePosixPath):
        def exists(self):
            fs.tick("exists", self, can_fail=False)
            return fs.exists(self)

        def is_symlink(self):
            fs.tick("is_symlink", self, can_fail=False)
            return fs.islink(self)

        def read_text(self, encoding=None):
            with fs.open(str(self), "r") as f:
                return f.read()

        def mkdir(self, parents=False, exist_ok=False, mode=0o777):
            return fs.mkdir(str(self), parents, exist_ok)

        def absolute(self):
            return self if self.is_absolute() else MPath("/cwd") / self

        def resolve(self, strict=False):
            fs.tick("resolve", self, can_fail=False)
            return MPath(fs._resolve(self.absolute()))

        def stat(self):
            return fs.stat(str(self))

    os_ns = SimpleNamespace(
        stat=fs.stat,
        fchmod=fs.fchmod,
        fdopen=fs.fdopen,
        fsync=fs.fsync,
        unlink=fs.unlink,
        replace=fs.replace,
        path=SimpleNamespace(exists=fs.path_exists),
        sep="/",
    )
    tempfile_ns = SimpleNamespace(mkstemp=fs.mkstemp)
    return SimpleNamespace(os=os_ns, tempfile=tempfile_ns, open=fs.open, Path=MPath)
