import sys, re, time; sys.path.insert(0,'/verif')
import z3
from vf import rx
from octave_mcp.core import emitter, lexer
def member(s, lang):
    sol = z3.Solver(); sol.set('timeout',5000); sol.add(z3.InRe(z3.StringVal(s), lang)); return str(sol.check())
t0=time.time(); print(len(rx.cat_ranges('digit')), len(rx.cat_ranges('word')), time.time()-t0)
for name,p in [('ANNOT',emitter.ANNOTATION_PATTERN),('VAR',emitter.VARIABLE_PATTERN),('EXPR',emitter.EXPRESSION_PATTERN)]:
    t0=time.time(); lang = rx.full_lang(p); print(name,'built',time.time()-t0)
    for s in ['a','A<b>','A<>','A<a,b>','A→B','A→B-','$a:b','$']:
        t0=time.time(); print(' ',repr(s), member(s,lang), p.match(s) is not None, round(time.time()-t0,3))
for ptxt,tt in lexer.TOKEN_PATTERNS:
    t0=time.time()
    try: lang = rx.prefix_lang(ptxt)
    except rx.Unsupported as e:
        print('UNSUP',ptxt,e); continue
    bt=time.time()-t0
    cp=re.compile(ptxt)
    for s in ['a','1.0.0','1.5','-3e5','vs','vs.','vsx','true','true-x','"a"','"""a"""','//x','→','٣']:
        t0=time.time(); r=member(s,lang); dt=time.time()-t0
        py = cp.match(':'+s,1) is not None
        if (r=='sat')!=py or dt>1: print('  !!',ptxt,repr(s),r,py,round(dt,3))
    print(ptxt,'ok build',round(bt,3))
