import sys, time; sys.path.insert(0,'/verif')
from vf import xh
from harness import C04
def mk(pos, n):
    def f(a: str, b: str, op: int) -> int:
        """
        pre: 1 <= len(a) <= N and 1 <= len(b) <= N and 0 <= op <= 6
        post: _ != 0
        """
        return C04.P_expr(a, b, op, pos)
    f.__doc__ = f.__doc__.replace('N', str(n))
    return f
r = xh.run(mk(int(sys.argv[2]), int(sys.argv[3])), timeout=int(sys.argv[1]))
print(r.status, r.detail[:300], r.args, 'paths',r.paths,'q',r.solver_calls,r.solver_s,'wall',r.wall_s)
