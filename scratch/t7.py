import sys, time, ast, inspect, textwrap; sys.path.insert(0,'/verif')
from vf import xh
from octave_mcp.core import lexer, emitter

def extract_string_branch():
    src = inspect.getsource(lexer.tokenize)
    tree = ast.parse(textwrap.dedent(src))
    found = []
    class V(ast.NodeVisitor):
        def visit_If(self, node):
            t = node.test
            if isinstance(t, ast.Compare) and ast.unparse(t) == 'token_type == TokenType.STRING':
                found.append(node.body)
            self.generic_visit(node)
    V().visit(tree)
    assert len(found) == 1, len(found)
    fn = ast.FunctionDef(name='string_branch', args=ast.arguments(posonlyargs=[], args=[ast.arg('matched_text')], kwonlyargs=[], kw_defaults=[], defaults=[]),
        body=[ast.Assign([ast.Name('normalized_from', ast.Store())], ast.Constant(None))] + found[0] + [ast.Return(ast.Tuple([ast.Name('value', ast.Load()), ast.Name('normalized_from', ast.Load())], ast.Load()))],
        decorator_list=[], type_params=[])
    mod = ast.Module(body=[fn], type_ignores=[]); ast.fix_missing_locations(mod)
    ns = {}
    exec(compile(mod, '<slice of lexer.tokenize STRING branch>', 'exec'), lexer.__dict__, ns)
    return ns['string_branch']
sb = extract_string_branch()
print(sb('"a\\\\tb"'))

def h(v: str) -> int:
    """
    pre: len(v) <= 3
    post: _ != 0
    """
    t = emitter.emit_value(" " + v)
    val, nf = sb(t)
    return 1 if val == " " + v and nf is None else 0
r = xh.run(h, timeout=300)
print(r.status, r.detail[:200], r.args, 'paths',r.paths,'q',r.solver_calls,r.solver_s,'wall',r.wall_s)
