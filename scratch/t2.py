import sys, re, itertools, time; sys.path.insert(0,'/verif')
from vf import rx
from octave_mcp.core import emitter, lexer
from octave_mcp.schemas import loader
alpha = ['a','Z','_','.','-','0','<','>',',','$',':','→','@','t','v','s',' ','\n','"','\\','٣','é','/','+','e']
strs = ['']+alpha+[''.join(p) for p in itertools.product(alpha, repeat=2)]
strs += ['true','true.x','vs.','a-b','a-','A<b>','A<>','A<a,b>','A<a,>','$a:b','A→B','A→B-','A→-B','1.0.0','1.0-beta','-1e5','3.','1e+5','"ab"','"a\\"b"','"""a"b"""','""""""','"""a""b"""','ab\n','A<b>\n', 'vs','vsx','vs x','null-a','nullx','//c','---','===END===','===A===','OCTAVE::5.1','OCTAVE::5-a']
t0=time.time()
pats = {'IDENT': emitter.IDENTIFIER_PATTERN,'ANNOT': emitter.ANNOTATION_PATTERN,'VAR': emitter.VARIABLE_PATTERN,'EXPR': emitter.EXPRESSION_PATTERN,'SCHEMA': loader.SCHEMA_NAME_PATTERN}
bad=0
for name,p in pats.items():
    lang = rx.full_lang(p)
    for s in strs:
        py = p.match(s) is not None
        z = rx.member(s, lang)
        if py!=z: bad+=1; print('MISMATCH',name,repr(s),py,z)
print('full done',time.time()-t0)
for i,(ptxt,tt) in enumerate(lexer.TOKEN_PATTERNS):
    try:
        lang = rx.prefix_lang(ptxt, left_word=False)
    except rx.Unsupported as e:
        print('unsupported',ptxt,e); continue
    cp = re.compile(ptxt)
    for s in strs:
        py = cp.match(':'+s,1) is not None
        z = rx.member(s, lang)
        if py!=z: bad+=1; print('MISMATCH',ptxt,repr(s),py,z)
print('bad',bad,time.time()-t0)
