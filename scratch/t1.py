import sys; sys.path.insert(0,'/verif')
from vf import xh
from octave_mcp.core import emitter

def h1(v: str) -> bool:
    """
    pre: len(v) <= 3
    post: _
    """
    # needs_quotes false => matches one of four patterns
    nq = emitter.needs_quotes(v)
    if not nq:
        return v not in ("true","false","null","vs") and len(v) > 0
    return True

def h2(v: str) -> bool:
    """
    pre: len(v) <= 2
    post: _
    """
    return emitter.needs_quotes(v) or v != "a-"

def h3(a: str, b: str) -> bool:
    """
    pre: len(a) <= 2 and len(b) <= 2
    post: _
    """
    s = '"' + a + '"'
    return (s[1:-1] == a) and (a == s[1:-1])

def h4(a: str) -> bool:
    """
    pre: len(a) <= 2
    post: _
    """
    return emitter.needs_quotes(a) or a != "ab"

for h in (h1,h2,h3,h4):
    r = xh.run(h, timeout=60)
    print(h.__name__, r.status, r.detail[:100], r.args, r.paths, r.solver_calls, r.solver_s, r.wall_s)
