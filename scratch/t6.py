import sys, time; sys.path.insert(0,'/verif')
from vf import xh, stubs
from harness import C04
stubs.lexer_stubs()
n=int(sys.argv[1]); T=int(sys.argv[2])
f = C04._mk_L4(n,'K')
r = xh.run(f, timeout=T)
print(n, r.status, r.detail[:200], r.args, 'paths',r.paths,'q',r.solver_calls,r.solver_s,'wall',r.wall_s)
