import sys, re, time; sys.path.insert(0,'/verif')
import z3
from vf import rx
from octave_mcp.core import emitter, lexer
ident = rx.full_lang(emitter.IDENTIFIER_PATTERN)
for ptxt in [r'\btrue\b', r'\bvs\b', r"-?\d+\.?\d*(?:[eE][+-]?\d+)?", r"(\d+\.\d+(?:\+[A-Za-z0-9.]+))"]:
    pm = rx.prefix_lang(ptxt)
    t0=time.time(); r = rx.nonempty('q', rx.inter(ident, pm), 20000); print(ptxt, r, round(time.time()-t0,3))
    res = rx.alt(*[rx.lit(w) for w in ("true","false","null","vs")])
    fam = rx.cat(res, rx.chars('.-'), rx.SIGMA_STAR)
    t0=time.time(); r = rx.nonempty('q', rx.inter(ident, pm, rx.comp(res), rx.comp(fam)), 20000); print(ptxt, r, round(time.time()-t0,3))
print(rx.Query.log[-1])
