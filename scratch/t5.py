from octave_mcp.core.parser import parse, parse_with_warnings
from octave_mcp.core.emitter import emit
from octave_mcp.core.ast_nodes import *
def rt(v, pos='assign'):
    if pos=='assign': d = Document(name='D', sections=[Assignment(key='K', value=v)])
    elif pos=='list': d = Document(name='D', sections=[Assignment(key='K', value=ListValue(items=[v]))])
    elif pos=='list2': d = Document(name='D', sections=[Assignment(key='K', value=ListValue(items=[v,'x']))])
    elif pos=='imap': d = Document(name='D', sections=[Assignment(key='K', value=ListValue(items=[InlineMap(pairs={'A':v})]))])
    elif pos=='meta': d = Document(name='D', meta={'A':v})
    t = emit(d)
    try:
        d2 = parse(t)
    except Exception as e:
        return t, 'ERR '+type(e).__name__+str(e)[:60]
    if pos=='assign': r = d2.sections[0].value
    elif pos in('list','list2'):
        r = d2.sections[0].value; r = r.items[0] if isinstance(r, ListValue) else r
    elif pos=='imap':
        r = d2.sections[0].value; r = r.items[0].pairs.get('A') if isinstance(r, ListValue) and isinstance(r.items[0], InlineMap) else r
    elif pos=='meta': r = d2.meta.get('A')
    return t.split('\n')[1:3], r, (r==v and type(r)==type(v)), emit(d2)==t
for v in ['A∧B','A→B','a@b','x','§1','§A','a:b','$a:b','$a:','A<b>','1.0.0','x y','null-a','\\t', 1, 1.5, 1e22, 1e-7, True, None, '', 'A⊕B', 'a.b', '-', 'a/b', '/a', 'OCTAVE', 'META', 'a%', '50%']:
    for pos in ['assign','list','list2','imap','meta']:
        r = rt(v,pos)
        if r[-1] is not True or r[-2] is not True: print(repr(v),pos,r)
