"""C09 - validity is invariant under respelling; validating never alters content.

Equality of verdicts across spellings = (same AST for every spelling: C02/C03, re-checked here at token level with the
field-by-field comparison) + (the verdict is a function of AST content only, and validation is read-only: checked here).
"""
from __future__ import annotations

from harness import docmodel as dm
from vf.ob import HELD, SKIP, VIOL, select, xh_ob

PROP = "C09"
META = {
    "explanation": "CrossHair symbolic execution of the real Validator on ASTs that differ only in position metadata / token witnesses / layout, of the validate tool's fix-off path, and of the lenient token layouts compared field by field",
    "assumptions": ["value kind preserved by canonicalisation is C04; schemas of 2 fields from C08's pool (dict keys realise)"],
}


def V_metadata_independent(req0: bool, present: int, extra: int, policy: int, profile_strict: bool, line: int, col: int, val_i: int) -> int:
    """
    pre: 0 <= present <= 3 and 0 <= extra <= 1 and 0 <= policy <= 2 and 0 <= line and 0 <= col and 0 <= val_i <= 4
    post: _ != 0
    """
    # two ASTs with the same content (one as a reader would produce it: positions, token witnesses on lists; one bare):
    # same set of (code, field path); both ASTs unchanged by validation
    import copy

    from octave_mcp.core import constraints as c
    from octave_mcp.core.ast_nodes import Assignment, Block, Document, ListValue
    from octave_mcp.core.holographic import HolographicPattern
    from octave_mcp.core.lexer import Token, TokenType
    from octave_mcp.core.schema_extractor import FieldDefinition, PolicyDefinition, SchemaDefinition
    from octave_mcp.core.validator import Validator

    values = ["on", "ON", 7, ListValue(items=["a", "b"]), None]
    v = values[val_i]

    def fd(name, members):
        return FieldDefinition(name=name, pattern=HolographicPattern(example="x", constraints=c.ConstraintChain(members), target=None))

    schema = SchemaDefinition(name="S", version="1", policy=PolicyDefinition(version="1", unknown_fields=["REJECT", "WARN", "IGNORE"][policy], targets=[]),
                              fields={"A": fd("A", [c.RequiredConstraint() if req0 else c.OptionalConstraint(), c.EnumConstraint(["ON", "OFF"])]), "B": fd("B", [c.TypeConstraint("NUMBER")])})

    def build(positions):
        kw = {"line": line, "column": col} if positions else {}
        ch = []
        if present & 1:
            vv = ListValue(items=list(v.items), tokens=[Token(TokenType.LIST_START, "[", line, col)] if positions else None) if isinstance(v, ListValue) else v
            ch.append(Assignment(key="A", value=vv, **kw))
        if present & 2:
            ch.append(Assignment(key="B", value=7, **kw))
        for i in range(extra):
            ch.append(Assignment(key="X%d" % i, value="u", **kw))
        return Document(name="D", meta={"TYPE": "T"}, sections=[Block(key="S", children=ch, **kw)])

    d1, d2 = build(True), build(False)
    before1, before2 = copy.deepcopy(d1), copy.deepcopy(d2)
    e1 = sorted((e.code, e.field_path) for e in Validator().validate(d1, strict=profile_strict, section_schemas={"S": schema}))
    e2 = sorted((e.code, e.field_path) for e in Validator().validate(d2, strict=profile_strict, section_schemas={"S": schema}))
    if e1 != e2:
        return VIOL
    if not dm.same_doc(d1, before1) or not dm.same_doc(d2, before2):
        return VIOL  # validating is read-only
    again = sorted((e.code, e.field_path) for e in Validator().validate(d1, strict=profile_strict, section_schemas={"S": schema}))
    return HELD if again == e1 else VIOL


def T_fix_off_is_read_only(fix: bool, diff_only: bool, compact: bool, builtin: bool, load_outcome: int, n1: int, profile_i: int) -> int:
    """
    pre: 0 <= load_outcome <= 3 and 0 <= n1 <= 2 and 0 <= profile_i <= 3
    post: _ != 0
    """
    # with fix off repair() is never invoked and the object handed to emit is the one the reader returned, so
    # canonical == emit(parse(x)); two calls give equal envelopes
    from harness.toolworld import World, drive, install_validate_stubs

    prof = ["STRICT", "STANDARD", "LENIENT", "ULTRA"][profile_i]

    def call():
        w = World()
        mod = install_validate_stubs(w, parse_outcome=0, n_parse_warnings=1, builtin=builtin, load_outcome=load_outcome, n_errors_first=n1, n_errors_after_fix=0, emit_raises=False, compile_raises=False, zones=False)
        r = drive(mod.ValidateTool().execute(schema="ANY", content="X", fix=fix, diff_only=diff_only, compact=compact, profile=prof))
        return w, r

    w1, r1 = call()
    w2, r2 = call()
    if not fix:
        if w1.repair_calls != 0:
            return VIOL
        if len(w1.emitted_docs) != 1 or w1.emitted_docs[0] is not w1.parsed_doc:
            return VIOL
        if not diff_only and r1.get("canonical") != "CANON":
            return VIOL
    if r1 != r2:
        return VIOL
    return HELD


RECEIPT_KINDS = [
    {"type": "normalization", "original": "->", "normalized": "\u2192", "line": 1, "column": 2},
    {"type": "normalization", "original": '"""', "normalized": '"', "line": 1, "column": 2},
    {"type": "spec_violation", "subtype": "wrong_case", "original": "NULL", "line": 1, "column": 4, "message": "m", "code": "W_WRONG_CASE"},
    {"type": "spec_violation", "subtype": "bare_flow", "original": "a\u2192b", "line": 1, "column": 4, "message": "m", "code": "W_BARE_FLOW"},
    {"type": "lenient_parse", "subtype": "multi_word_coalesce", "original": ["a", "b"], "result": "a b", "context": "c", "line": 1, "column": 4},
    {"type": "lenient_parse", "subtype": "duplicate_key", "key": "K", "lines": [1, 2], "line": 2, "column": 1, "message": "m"},
    {"type": "lenient_parse", "subtype": "bare_line_dropped", "original": "x", "line": 1, "column": 1},
]


def T_verdict_independent_of_spelling_receipts(fix: bool, builtin: bool, load_outcome: int, n1: int, profile_i: int, na: int, ka: int) -> int:
    """
    pre: 0 <= load_outcome <= 3 and 0 <= n1 <= 1 and profile_i == PROFIX and 1 <= na <= 2 and 0 <= ka <= 6
    post: _ != 0
    """
    # two spellings of the same content reach the tool as the same AST with DIFFERENT reader receipts (a canonical text
    # has none; an alias / quoted / multi-word spelling has some): validation_status and the set of (code, field) must
    # not depend on the receipts, under every profile, with and without fix
    from crosshair.core import realize
    from harness.toolworld import World, drive, install_validate_stubs

    prof = ["STRICT", "STANDARD", "LENIENT", "ULTRA"][profile_i]
    from vf.ob import pick

    ka, na, profile_i = pick(ka, 7), pick(na, 2, 1), pick(profile_i, 4)

    def call(kind, n):
        w = World()
        mod = install_validate_stubs(w, parse_outcome=0, n_parse_warnings=0, builtin=builtin, load_outcome=load_outcome, n_errors_first=n1, n_errors_after_fix=0, emit_raises=False, compile_raises=False, zones=False,
                                     parse_warnings=[dict(RECEIPT_KINDS[kind]) for _ in range(n)])
        r = drive(mod.ValidateTool().execute(schema="ANY", content="X", fix=fix, profile=prof))
        pairs = sorted((e.get("code"), e.get("field")) for e in r.get("validation_errors", []))
        return r.get("validation_status"), pairs, r.get("valid")

    return HELD if call(ka, na) == call(0, 0) else VIOL


def _mk_respell_same_ast(shape):
    def R_same_ast(w1: int, w2: int, w3: int, w4: int, drop_end: bool, quote_words: bool) -> int:
        """
        pre: 0 < w1 < w2 < w3 < w4 <= 40
        post: _ != 0
        """
        # lenient token layouts give the SAME content (field by field), hence the same verdict by the lemma above
        from crosshair.core import realize
        from crosshair.tracers import NoTracing
        from octave_mcp.core import lexer as lx
        from octave_mcp.core.parser import Parser

        drop_end, quote_words = realize(drop_end), realize(quote_words)
        T = lx.TokenType
        with NoTracing():
            model, text, toks, sites, fm, _ = dm.canonical_tokens(shape)
            out = []
            for i, t in enumerate(toks):
                if t.type is T.ENVELOPE_END and drop_end:
                    continue
                if quote_words and t.type is T.IDENTIFIER and any(s[0] == i and s[3] == "value" for s in sites) and "<" not in t.value and toks[i + 1].type in (T.NEWLINE, T.COMMA, T.LIST_END, T.COMMENT) and toks[i - 1].type in (T.ASSIGN, T.COMMA, T.LIST_START, T.INDENT):
                    t = lx.Token(T.STRING, t.value, t.line, t.column)
                out.append(t)
        widths = [0, w1, w2, w3, w4]
        for i, t in enumerate(out):
            if t.type is T.INDENT:
                out[i] = lx.Token(T.INDENT, widths[min(t.value // 2, 4)], t.line, t.column)
        doc = Parser(out).parse_document()
        return HELD if dm.same_doc(doc, model) else VIOL

    return R_same_ast


def obligations(tier):
    obs = [
        xh_ob(PROP, "V.verdict-function-of-content-and-read-only", V_metadata_independent, timeout=1500, bound="schema {A: REQ|OPT ∧ ENUM, B: TYPE[NUMBER]} x 4 presence masks x 0-1 unknown field x 3 policies x strict on/off x value from 5 kinds; positions any non-negative integers; reader-style AST (positions, list token witness) vs bare AST", functions=["validator.Validator.validate", "_validate_section", "_validate_unknown_fields", "_to_python_value"]),
        xh_ob(PROP, "T.fix-off-is-plain-canonicalisation", T_fix_off_is_read_only, timeout=1500, bound="fix / diff_only / compact x builtin x file-schema outcome x 0-2 errors x 4 profiles; two calls", functions=["mcp.validate.ValidateTool.execute (STAGE 4/5)"], stubs=["collaborators stubbed with symbolic outcomes"]),
    ]
    import types

    for pi, pname in enumerate(["STRICT", "STANDARD", "LENIENT", "ULTRA"]):
        f = types.FunctionType(T_verdict_independent_of_spelling_receipts.__code__, T_verdict_independent_of_spelling_receipts.__globals__, "T_verdict_independent_of_spelling_receipts")
        f.__doc__ = T_verdict_independent_of_spelling_receipts.__doc__.replace("PROFIX", str(pi))
        f.__annotations__ = dict(T_verdict_independent_of_spelling_receipts.__annotations__)
        obs.append(xh_ob(PROP, f"T.verdict-independent-of-spelling-receipts[{pname}]", f, timeout=1200, bound="same AST read with no receipt (canonical spelling) vs. with 1-2 receipts of one of 7 kinds ( alias / triple-quote normalisation, wrong-case and bare-flow spec_violation, multi-word coalesce, duplicate key, dropped line) x this profile x fix x schema outcomes x 0-1 validator errors", functions=["mcp.validate.ValidateTool.execute"], stubs=["collaborators stubbed with symbolic outcomes"]))
    for shape in dm.SHAPES:
        obs.append(xh_ob(PROP, f"R.lenient-layouts-give-the-same-content[{shape}]", _mk_respell_same_ast(shape), timeout=1500, bound=f"shape '{shape}': indentation widths any integers 0 < w1 < w2 < w3 < w4 <= 40, END present/absent, plain words quoted/bare; field-by-field comparison with the content model", functions=["parser.Parser.parse_document (lenient)"]))
    return select(obs, tier)
