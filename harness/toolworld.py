"""Stub world for the tool-layer harnesses (C09, C10, C20): the real execute() bodies run under CrossHair while their
collaborators are replaced, in the tool module's namespace, by stubs whose *outcomes* are symbolic."""
from __future__ import annotations

from types import SimpleNamespace


def drive(coro):
    """execute() bodies contain no await: one send(None) runs them to completion."""
    try:
        coro.send(None)
    except StopIteration as e:
        return e.value
    raise RuntimeError("tool coroutine awaited something")


class Err:
    def __init__(self, code, field_path, message="m", severity="error"):
        self.code = code
        self.field_path = field_path
        self.message = message
        self.severity = severity


class World:
    """Records what the tool did with its collaborators."""

    def __init__(self):
        self.parsed_doc = None
        self.emitted_docs = []
        self.repair_calls = 0
        self.validate_calls = 0
        self.schema_applied = False
        self.compile_calls = 0


def make_doc():
    from octave_mcp.core.ast_nodes import Assignment, Document

    return Document(name="D", meta={"TYPE": "X"}, sections=[Assignment(key="K", value="v")])


def install_validate_stubs(w: World, *, parse_outcome: int, n_parse_warnings: int, builtin: bool, load_outcome: int,
                           n_errors_first: int, n_errors_after_fix: int, emit_raises: bool, compile_raises: bool, zones: bool, parse_warnings=None):
    """parse_outcome: 0 ok, 1 LexerError(E005), 2 ParserError, 3 other exception.
    load_outcome: 0 None, 1 definition with fields, 2 definition without fields, 3 raises."""
    from octave_mcp.core.lexer import LexerError
    from octave_mcp.core.parser import ParserError
    from octave_mcp.mcp import validate as mod

    def parse_with_warnings(content):
        if parse_outcome == 1:
            raise LexerError("Unexpected character", 1, 1, "E005")
        if parse_outcome == 2:
            raise ParserError("bad", None, "E001")
        if parse_outcome == 3:
            raise RuntimeError("boom")
        w.parsed_doc = make_doc()
        if parse_warnings is not None:
            return w.parsed_doc, list(parse_warnings)
        return w.parsed_doc, [{"type": "normalization", "original": "->", "normalized": "→", "line": 1, "column": i + 1} for i in range(n_parse_warnings)]

    def get_builtin_schema(name):
        return {"name": "BUILTIN", "version": "9"} if builtin else None

    def load_schema_by_name(name):
        if load_outcome == 0:
            return None
        if load_outcome == 3:
            raise OSError("unreadable")
        fields = {"F": SimpleNamespace(pattern=None)} if load_outcome == 1 else {}
        return SimpleNamespace(name="FILE", version="2", fields=fields, frontmatter={}, policy=None)

    class Validator:
        def __init__(self, schema=None):
            self.schema = schema
            self.routing_log = SimpleNamespace(to_dict=lambda: [])

        def validate(self, doc, strict=False, section_schemas=None):
            w.validate_calls += 1
            if self.schema is not None or section_schemas:
                w.schema_applied = True
            n = n_errors_first if w.repair_calls == 0 else n_errors_after_fix
            return [Err("E003", "S.F%d" % i) for i in range(n)]

    def repair(doc, errors, fix=False, schema=None):
        w.repair_calls += 1
        return doc, SimpleNamespace(repairs=[])

    def emit(doc):
        if emit_raises:
            raise ValueError("emit")
        w.emitted_docs.append(doc)
        return "CANON"

    class GBNFCompiler:
        def compile_schema(self, sd, include_envelope=True):
            w.compile_calls += 1
            if compile_raises:
                raise KeyError("x")
            return "root ::= x"

    mod.parse_with_warnings = parse_with_warnings
    mod.get_builtin_schema = get_builtin_schema
    mod.load_schema_by_name = load_schema_by_name
    mod.Validator = Validator
    mod.repair = repair
    mod.emit = emit
    mod.GBNFCompiler = GBNFCompiler
    mod._count_literal_zones = lambda doc: ([{"key": "K", "info_tag": None, "line": 1}] if zones else [])
    return mod


STATUSES = ("VALIDATED", "UNVALIDATED", "INVALID")
