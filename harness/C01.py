"""C01 - canonicalisation is idempotent and its output is re-readable.

Composition (DESIGN.md §6): (a) lexical layer - every value text the emitter produces re-lexes to the token(s) that parse
back to the value (C04's RX/XH obligations, re-run here against the live tables); (b) structure layer - for the content
models, the real Parser run on the real tokenizer's layout of the canonical text, with one symbolic content site per path,
returns the model AND re-emits exactly the model's canonical text (harness/docmodel.py); (c) list layout, frontmatter and
holographic re-emission lemmas.
"""
from __future__ import annotations

from harness import C02, C04
from harness import docmodel as dm
from vf.ob import HELD, SKIP, VIOL, kf_active, select, xh_ob

PROP = "C01"
META = {
    "explanation": "z3 regular-language inclusion for the lexical layer; CrossHair symbolic execution of the real Parser + emitter on the canonical token layout of content models with one symbolic site per path",
    "assumptions": C02.META["assumptions"] + ["idempotence on a shape follows from emit(parse(tokens(canon))) == canon for all contents plus the lexical layer (tokens of the re-emitted text are the same tokens)"],
}


def _mk_list_layout(n, kfix):
    def L_list(k: int, s0: str, nested: bool, imap: bool, annot: bool) -> int:
        """
        pre: k == KFIX and len(s0) <= N
        post: _ != 0
        """
        s1 = "second item"
        # the layout choice (_needs_multiline) is a function of content only and both layouts are read back as the same
        # items by the real parser (token layout of each: the real tokenizer on placeholders, items then symbolic)
        from crosshair.core import realize
        from crosshair.tracers import NoTracing
        from octave_mcp.core import lexer as lx
        from octave_mcp.core.ast_nodes import Assignment, Document, InlineMap, ListValue
        from octave_mcp.core.emitter import emit
        from octave_mcp.core.parser import Parser

        k, nested, imap, annot = realize(k), realize(nested), realize(imap), realize(annot)
        ph = ["P0", "P1", "P2", "P3"]
        items = ph[:k]
        extra = []
        if nested:
            extra.append(ListValue(items=["n0", "n1"]))
        if imap:
            extra.append(InlineMap(pairs={"IK": "iv"}))
        if annot:
            extra.append("AN<q>")
        with NoTracing():
            model = Document(name="D", sections=[Assignment(key="K", value=ListValue(items=list(items) + extra)), Assignment(key="Z", value=1)])
            text = emit(model)
            toks, _ = lx.tokenize(text)
            toks = list(toks)
            idx = {t.value: i for i, t in enumerate(toks) if t.type is lx.TokenType.IDENTIFIER and t.value in ph}
        vals = {"P0": s0, "P1": s1}
        for p, v in vals.items():
            if p in idx:
                t = toks[idx[p]]
                toks[idx[p]] = lx.Token(lx.TokenType.STRING, v, t.line, t.column)
        doc = Parser(toks, strict_structure=True).parse_document()
        want_items = [vals.get(p, p) for p in items] + extra
        got = doc.sections[0].value
        if not isinstance(got, ListValue) or not dm.same_value(got, ListValue(items=want_items)):
            return VIOL
        if len(doc.sections) != 2 or doc.sections[1].key != "Z":
            return VIOL
        # same content => same layout decision (the text of each layout is covered by the symbolic-site obligations)
        from octave_mcp.core.emitter import _needs_multiline

        return HELD if _needs_multiline(got) == _needs_multiline(ListValue(items=want_items)) else VIOL

    L_list.__doc__ = L_list.__doc__.replace("KFIX", str(kfix)).replace("<= N", "<= " + str(n))
    return L_list


def F_frontmatter(l0: str, l1: str, two: bool) -> int:
    """
    pre: len(l0) <= 2 and len(l1) <= 1
    post: _ != 0
    """
    # _strip_yaml_frontmatter(emit-prefix(f) + rest) == (padding + rest, f) for frontmatter the emitter writes
    from octave_mcp.core.parser import _strip_yaml_frontmatter

    for ln in (l0, l1):
        if "\n" in ln or ln.strip() == "---":
            return SKIP
    fm = l0 + ("\n" + l1 if two else "")
    if not fm.strip():
        return SKIP  # blank frontmatter is not emitted
    rest = "===D===\nK::1\n===END===\n"
    text = "---\n" + fm + "\n---\n\n" + rest
    stripped, got = _strip_yaml_frontmatter(text)
    if got != fm:
        return VIOL
    nlines = 2 + (2 if two else 1)
    return HELD if stripped == "\n" * nlines + "\n" + rest else VIOL


def holo_witness_ob():
    def run(tier):
        from octave_mcp.core.emitter import emit
        from octave_mcp.core.parser import parse

        res = {"engine": "xh", "verdict": "confirmed", "paths": 1, "queries": 0, "solver_s": 0.0, "known_findings": [], "replays": [], "reach_witnessed": True}
        src = '===D===\nK::["a' + chr(92) + '"b"∧REQ→§T]\n===END===\n'
        once = None
        try:
            once = emit(parse(src))
            twice = emit(parse(once))
            ok = once == twice
            why = "" if ok else f"second pass differs: {twice!r}"
        except Exception as e:  # noqa: BLE001
            ok, why = False, f"canonical text {once!r} rejected: {type(e).__name__}"
        if not ok:
            if kf_active(PROP, "holographic-unescaped-quote"):
                res["known_findings"].append("holographic-unescaped-quote: a holographic pattern whose example string contains an escaped quote is re-emitted from its tokens without re-escaping, so its canonical text does not read back")
            else:
                res["verdict"] = "violated"
                res["detail"] = why
        return res

    return {"id": "W.holographic-escaped-quote-witness", "engine": "xh", "timeout": 60, "bound": "concrete witness of the listed finding", "functions": ["parser._reconstruct_pattern_from_tokens", "emitter.emit_value (HolographicValue)"], "run": run}


def replay_rx(ob_id, query, words):
    return C04.replay_rx(ob_id, query, words)


def obligations(tier):
    th = tier == "thorough"
    obs = []
    # (a) lexical layer: the C04 RX obligations are C01.a verbatim (same live tables); re-issued under this property id
    from vf.ob import rx_ob

    obs.append(rx_ob(PROP, "RX.bare-value-texts-relex", C04.build_bare, timeout=900, bound="all strings of any length for which needs_quotes returns False (language derived from its live source)", functions=["emitter.needs_quotes", "lexer.TOKEN_PATTERNS", "lexer._is_valid_identifier_start", "lexer._is_valid_identifier_char"]))
    obs.append(rx_ob(PROP, "RX.numbers-and-literals-relex", C04.build_literals, bound="all decimal int texts and finite repr(float) texts; true/false/null", functions=["lexer.TOKEN_PATTERNS"]))
    obs.append(rx_ob(PROP, "RX.quoted-text-relex", C04.build_quoted, bound="all quoted texts of any length", functions=["lexer.TOKEN_PATTERNS"]))
    # (b) structure layer with re-emission
    for o in C02.obligations(tier, prop=PROP, emit_too=True):
        obs.append(o)
    # (c) lemmas
    for k in range(5):
        obs.append(xh_ob(PROP, f"L.list-layout-function-of-content[{k}-plain-items]", _mk_list_layout(2, k), timeout=1500, bound=f"list of {k} plain items (the first a symbolic string <= 2 chars of any character, the second a string that needs quotes) + optional nested list / inline map / annotation item: layout, read-back and re-emission", functions=["emitter._needs_multiline", "_emit_multiline_list", "emit_value", "parser.parse_list", "parse_list_item"]))
    obs.append(xh_ob(PROP, "F.frontmatter-strip-inverts-emission", F_frontmatter, timeout=600, bound="frontmatter of 1-2 lines (first <= 2, second <= 1 chars of any character except newline), not a --- line, not all blank", functions=["parser._strip_yaml_frontmatter", "emitter.emit (frontmatter prefix)"]))
    obs.append(holo_witness_ob())
    return select(obs, tier)
