"""C03 - all lenient spellings converge on one canonical text in strict profile.

XH (token level): from the real tokenizer's layout of a content model's canonical text, the documented layout freedoms are
applied with solver variables (indent width per depth, blank lines, missing END, quoted vs bare plain words, alias
spelling marks); the real lenient Parser + emitter must give the canonical bytes.  RX: alias table consistency and strict
profile of bare value texts.  XH: strict-profile line structure of the emitter on symbolic content.
"""
from __future__ import annotations

from harness import docmodel as dm
from vf.ob import HELD, SKIP, VIOL, kf_active, rx_ob, select, xh_ob

PROP = "C03"
META = {
    "explanation": "CrossHair on the real Parser/emitter over lenient token layouts with symbolic indent widths / blank-line counts / flags; z3 regex queries for aliases and strict profile",
    "assumptions": ["inline spaces are dropped by the lexer's whitespace branch (hand-transcribed skip rule; exercised concretely in the respelling obligation)", "triple-quoted text beyond the token flag is outside the claim"],
}


def _mk_layout(shape, lo=0, hi=None):
    def T_layout(w1: int, w2: int, w3: int, w4: int, blank_at: int, blanks: int, drop_end: bool, quote_words: bool, mark_alias: bool) -> int:
        """
        pre: 0 < w1 < w2 < w3 < w4 <= 40 and BLO <= blank_at <= BMAX and 0 <= blanks <= 1 and (blanks == 1 or blank_at == BLO)
        post: _ != 0
        """
        from crosshair.core import realize
        from crosshair.tracers import NoTracing
        from octave_mcp.core import lexer as lx
        from octave_mcp.core.emitter import emit
        from octave_mcp.core.parser import Parser

        from vf.ob import pick, pickb

        blank_at, blanks, drop_end, quote_words, mark_alias = pick(blank_at, BHI - BLO + 1, BLO), pick(blanks, 2), pickb(drop_end), pickb(quote_words), pickb(mark_alias)
        T = lx.TokenType
        with NoTracing():
            model, text, toks, sites, fm, _ = dm.canonical_tokens(shape)
            out = []
            nl_seen = 0
            in_brackets = 0
            for i, t in enumerate(toks):
                if t.type is T.LIST_START:
                    in_brackets += 1
                elif t.type is T.LIST_END:
                    in_brackets -= 1
                if t.type is T.ENVELOPE_END and drop_end:
                    continue
                if quote_words and t.type is T.IDENTIFIER and any(s[0] == i and s[3] == "value" for s in sites) and "<" not in t.value and i + 1 < len(toks) and toks[i + 1].type in (T.NEWLINE, T.COMMA, T.LIST_END, T.COMMENT) and toks[i - 1].type in (T.ASSIGN, T.COMMA, T.LIST_START, T.INDENT):
                    t = lx.Token(T.STRING, t.value, t.line, t.column)  # optional quotes around a plain word
                if mark_alias and t.type in (T.FLOW, T.SYNTHESIS, T.SECTION):
                    t = lx.Token(t.type, t.value, t.line, t.column, {"→": "->", "⊕": "+", "§": "#"}[t.value])
                out.append(t)
                if t.type is T.NEWLINE:
                    nl_seen += 1
                    if nl_seen == blank_at + 1:
                        for _ in range(2 * blanks):
                            out.append(lx.Token(T.NEWLINE, "\n", t.line, 1))
            if blank_at >= nl_seen and blanks:
                return SKIP
        widths = [0, w1, w2, w3, w4]
        for i, t in enumerate(out):
            if t.type is T.INDENT:
                d = t.value // 2
                if d > 4:
                    return SKIP
                out[i] = lx.Token(T.INDENT, widths[d], t.line, t.column)
        doc = Parser(out).parse_document()
        doc.raw_frontmatter = fm
        return HELD if emit(doc) == text else VIOL

    full = 28 if shape == "deep" else 70
    BLO, BHI = lo, (full if hi is None else hi)
    T_layout.__doc__ = T_layout.__doc__.replace("BMAX", str(BHI)).replace("BLO", str(BLO))
    return T_layout


def _space_assign(line):
    import re

    m = re.match(r"^( *)([A-Za-z_][A-Za-z0-9_.]*)::(.*)$", line)
    if not m or m.group(2) == "OCTAVE":
        return line
    return f"{m.group(1)}{m.group(2)} :: {m.group(3)}"


RESPELLINGS = [
    ("spaces around ::", lambda t: "\n".join(_space_assign(l) for l in t.split("\n"))),
    ("4-space indentation", lambda t: "\n".join((" " * (2 * (len(l) - len(l.lstrip(" ")))) + l.lstrip(" ")) if l.startswith(" ") else l for l in t.split("\n"))),
    ("trailing spaces", lambda t: "\n".join(l + "  " if l and not l.startswith("---") and "===" not in l and not l.startswith(("title", "kind")) else l for l in t.split("\n"))),
    ("blank lines", lambda t: t.replace("\nKA1", "\n\n\nKA1").replace("\n  BC0", "\n\n  BC0")),
    ("ascii aliases", lambda t: t.replace("→", "->").replace("⊕", "+").replace("\n§", "\n#")),
    ("missing END", lambda t: t.replace("===END===\n", "")),
    ("one-line lists", lambda t: t.replace("[\n  lm0,\n  lm1,\n  3,\n  \"sv three\"\n]", '[lm0, lm1, 3, "sv three"]')),
    ("multi-line short list", lambda t: t.replace("[li0,li1]", "[\n  li0,\n  li1\n]")),
    ("quoted plain words", lambda t: t.replace("KA1::IDV0", 'KA1::"IDV0"').replace("BC0::bv0", 'BC0::"bv0"')),
    ("triple quotes", lambda t: t.replace('"sv zero"', '"""sv zero"""')),
    ("spaces inside lists and before comments", lambda t: t.replace("[li0,li1]", "[ li0 ,  li1 ]").replace(" // tc0", "    // tc0")),
]


def R_respell(i: int, j: int, all_on: bool) -> int:
    """
    pre: 0 <= i <= 10 and 0 <= j <= 10
    post: _ != 0
    """
    # every combination of the documented lenient rewrites, applied together to the canonical text of the rich model and
    # read by the complete real reader, converges on the canonical bytes
    from crosshair.core import realize
    from crosshair.tracers import NoTracing
    from octave_mcp.core.emitter import emit
    from octave_mcp.core.parser import parse_with_warnings

    i, j, all_on = realize(i), realize(j), realize(all_on)
    mask = (1 << len(RESPELLINGS)) - 1 if all_on else ((1 << i) | (1 << j))
    with NoTracing():
        model, text, toks, sites, fm, _ = dm.canonical_tokens("rich")
        t = text
        for i, (name, fn) in enumerate(RESPELLINGS):
            if mask & (1 << i):
                t = fn(t)
        doc, _w = parse_with_warnings(t)
        return HELD if emit(doc) == text else VIOL


def _mk_strict(n, kfix):
    def E_strict(key_i: int, v: str, indent: int, kind: int, comment: str) -> int:
        """
        pre: 0 <= key_i <= 2 and key_i != 1 and len(v) <= N and 0 <= indent <= 2 and indent != 1 and kind == KFIX and len(comment) <= 1
        post: _ != 0
        """
        # emitted lines: exactly 2*depth spaces of indentation, '::' unspaced, no trailing blank, no tab (outside quotes
        # a tab cannot occur: it is escaped), whatever the content
        from octave_mcp.core import emitter as em
        from octave_mcp.core.ast_nodes import Assignment, Block, Comment, Section

        key = ["K", "Long_Key.x", "PATTERN"][key_i]
        if comment != comment.strip() or "\n" in comment:
            return SKIP  # comment text as the reader delivers it
        a = Assignment(key=key, value=v, leading_comments=[comment], trailing_comment=comment or None)
        if kind == 0:
            out = em.emit_assignment(a, indent)
            depth0 = indent
        elif kind == 1:
            out = em.emit_block(Block(key="B", children=[a, Comment(text=comment)]), indent)
            depth0 = indent
        elif kind == 2:
            out = em.emit_section(Section(section_id="1", key="S", children=[a]), indent)
            depth0 = indent
        else:
            out = em.emit_meta({key: v})
            depth0 = 0
        for line in out.split("\n"):
            if line == "":
                return VIOL
            if line[-1] == " " or line[-1] == "\t":
                return VIOL
            lead = len(line) - len(line.lstrip(" "))
            if lead % 2 != 0 or lead < 2 * depth0 and kind != 3:
                return VIOL
            if kind in (1, 2) and not (lead == 2 * depth0 or lead == 2 * (depth0 + 1)):
                return VIOL
            if (key + "::") in line and not line.lstrip(" ").startswith(key + "::"):
                return VIOL
            if (key + " ::") in line or (key + ":: ") in line:
                return VIOL
        return HELD

    E_strict.__doc__ = E_strict.__doc__.replace("KFIX", str(kfix)).replace("<= N", "<= " + str(n))
    return E_strict


def build_rx():
    from octave_mcp.core import lexer as lx
    from harness.C04 import quoted_lang
    from vf import lexmodel as lm
    from vf import nqmodel, rx

    qs = []
    bare = nqmodel.bare_language()
    qs.append({"name": "bare/inhabited", "langs": [bare], "expect": "sat"})
    # strict profile: bare value text never contains an ASCII alias, a space or a tab
    for a in sorted(lx.ASCII_ALIASES):
        if a == "vs":
            continue  # 'vs' is an operator only as a whole segment: C04/C01 show the TENSION pattern never fires in a bare value
        bad = rx.contains(rx.lit(a))
        qs.append({"name": f"bare/no-ascii-alias[{a}]", "langs": [rx.inter(bare, bad)], "replay": lambda w: (True, f"needs_quotes leaves {w[0]!r} bare although it contains an ASCII operator alias")})
    qs.append({"name": "bare/no-space-or-tab", "langs": [rx.inter(bare, rx.contains(rx.chars(" \t")))], "replay": lambda w: (True, f"bare value {w[0]!r} contains blank")})
    qs.append({"name": "quoted/no-raw-tab-or-newline", "langs": [rx.inter(quoted_lang(), rx.contains(rx.chars("\t\n")))], "replay": lambda w: (False, "model-only")})
    # alias table: the alias and its Unicode operator are matched (whole) by patterns of the same token type, and the
    # table maps the alias to exactly that operator
    for a, u in sorted(lx.ASCII_ALIASES.items()):
        if a == "+":
            continue  # handled by the tokenizer's '+' special case (exercised in the respelling obligation)
        ta = [t for i, p, t in lm.patterns() if _full(p, a)]
        tu = [t for i, p, t in lm.patterns() if _full(p, u)]
        ok = bool(ta) and bool(tu) and ta[0] == tu[0]
        qs.append({"name": f"alias[{a}]/same-token-type-as-{u}", "langs": [rx.EMPTY if ok else rx.lit(a)], "replay": lambda w, a=a, u=u: (True, f"alias {a!r} and {u!r} are not matched by patterns of one token type")})
    return qs


def _full(p, s):
    from vf import rx

    try:
        return rx.member(s, rx.fullmatch_lang(p))
    except rx.Unsupported:
        return False


def replay_rx(ob_id, query, words):
    for q in build_rx():
        if q["name"] == query and "replay" in q:
            return q["replay"](words)
    return False, "query not found"


def obligations(tier):
    th = tier == "thorough"
    pf = ["parser.Parser.parse_document (lenient)", "parse_section", "parse_section_marker", "parse_meta_block", "parse_list", "emitter.emit"]
    obs = [
        rx_ob(PROP, "RX.strict-profile-of-bare-values-and-alias-table", build_rx, bound="all bare value texts of any length; every entry of the live ASCII_ALIASES", functions=["emitter.needs_quotes", "lexer.ASCII_ALIASES", "lexer.TOKEN_PATTERNS"]),
        xh_ob(PROP, "R.combinations-of-lenient-rewrites-converge", R_respell, timeout=1800, bound=f"every single one, every pair and all {len(RESPELLINGS)} together of the documented lenient rewrites applied to the rich content model's canonical text, through the complete real reader", functions=["lexer.tokenize", "parser.parse_with_warnings", "emitter.emit"]),
    ] + [
        xh_ob(PROP, f"E.strict-profile-line-structure[{['assignment','block','section','META'][k]}]", _mk_strict(2 if th else 1, k), timeout=3000 if th else 900, bound=f"emission of a symbolic string value <= {2 if th else 1} char(s) (any character) with symbolic comment text <= 1 char, ordinary and always-quoted key, indent 0 and 2", functions=["emitter.emit_assignment", "emit_block", "emit_section", "emit_meta", "emit_comment", "_emit_leading_comments", "_emit_trailing_comment"])
        for k in range(4)
    ]
    for shape in dm.SHAPES:
        for lo, hi in ([(0, 14), (15, 28)] if shape == "deep" else [(0, 13), (14, 27), (28, 41), (42, 55), (56, 70)]):
            obs.append(xh_ob(PROP, f"T.token-level-layout-freedoms[{shape},blank line after line {lo}-{hi}]", _mk_layout(shape, lo, hi), timeout=3000 if th else 1200, bound=f"shape '{shape}': indentation width per depth any integers 0 < w1 < w2 < w3 < w4 <= 40 (symbolic), 0 or 2 extra blank lines after any one line (symbolic position), END present/absent, plain words quoted/bare, alias marks on operators", functions=pf))
    return select(obs, tier)
