"""C13 - what a compiled grammar can generate, the validator accepts.

RX: each per-kind GBNF fragment is read from the live compiler, parsed by the reference reader (vf/gbnf.py), translated
to a regular language and compared with the lexer model: every derivable text must be tokenised as ONE value of the kind
the chain needs.  XH: CONST / ENUM literals are exactly the canonical emission of the constant (so C04 gives value and
type back), and the chain then accepts it.
"""
from __future__ import annotations

from vf import lexmodel as lm
from vf import rx
from vf.ob import HELD, SKIP, VIOL, kf_active, rx_ob, select, xh_ob

PROP = "C13"
META = {
    "explanation": "z3 regular-language inclusion between compiled GBNF fragments and the lexer model; CrossHair on _compile_const/_compile_enum + chain evaluation",
    "assumptions": ["value text = derivation of the field's fragment (the rule's leading `ws` is judged separately)", "reading back a canonical scalar text returns the scalar (C04)"],
}


def _read_ok(text, chain_text):
    """Replay on the real code: FIELD::text is read without error as one value the chain accepts."""
    from octave_mcp.core.constraints import ConstraintChain
    from octave_mcp.core.parser import parse_with_warnings

    try:
        doc, warns = parse_with_warnings("===D===\nF::" + text + "\n===END===\n")
    except Exception as e:  # noqa: BLE001
        return False, f"F::{text!r} rejected by the reader: {type(e).__name__}"
    if len(doc.sections) != 1 or getattr(doc.sections[0], "key", None) != "F":
        return False, f"F::{text!r} read as {len(doc.sections)} nodes"
    v = doc.sections[0].value
    res = ConstraintChain.parse(chain_text).evaluate(v, "F")
    return res.valid, f"F::{text!r} read as {v!r}; {chain_text} -> valid={res.valid}"


def build_number():
    from octave_mcp.core import constraints as c
    from octave_mcp.core.gbnf_compiler import GBNFCompiler
    from vf import gbnf

    frag = GBNFCompiler()._compile_type(c.TypeConstraint("NUMBER"))
    L = gbnf.fragment_lang(frag)
    fol = lm.follow()
    number = lm.pattern_of("NUMBER")

    def replay(words):
        w = words[0]
        for i in range(len(w), 0, -1):
            ok, text = _read_ok(w[:i], "TYPE[NUMBER]")
            if not ok and rx.member(w[:i], L):
                return True, text
        return False, "every derivable prefix validates"

    qs = [
        {"name": "number/inhabited", "langs": [L], "expect": "sat"},
        {"name": "number/no-earlier-pattern", "langs": [rx.inter(rx.cat(L, fol), lm.pm_union(only_before="NUMBER"))], "replay": replay},
        {"name": "number/NUMBER-matches-whole", "langs": [rx.minus(L, rx.fullmatch_lang(number))], "replay": replay},
    ]
    for kind in ("RANGE",):
        fr = GBNFCompiler()._compile_range(c.RangeConstraint(1, 5))
        qs.append({"name": "range/same-shape-as-number", "langs": [rx.minus(gbnf.fragment_lang(fr), rx.fullmatch_lang(number))], "replay": replay})
    return qs


def build_boolean():
    from octave_mcp.core import constraints as c
    from octave_mcp.core.gbnf_compiler import GBNFCompiler
    from vf import gbnf

    L = gbnf.fragment_lang(GBNFCompiler()._compile_type(c.TypeConstraint("BOOLEAN")))
    fol = lm.follow()
    bools = [p for i, p, t in lm.patterns() if t == "BOOLEAN"]
    idx = min(i for i, p, t in lm.patterns() if t == "BOOLEAN")
    earlier = rx.alt(*[lm.pm(p, over_approx=True) for i, p, t in lm.patterns() if i < idx and t != "GRAMMAR_SENTINEL"])

    def replay(words):
        w = words[0]
        for i in range(len(w), 0, -1):
            if rx.member(w[:i], L):
                ok, text = _read_ok(w[:i], "TYPE[BOOLEAN]")
                if not ok:
                    return True, text
        return False, "derivable prefixes validate"

    return [
        {"name": "boolean/inhabited", "langs": [L], "expect": "sat"},
        {"name": "boolean/no-earlier-pattern", "langs": [rx.inter(rx.cat(L, fol), earlier)], "replay": replay},
        {"name": "boolean/a-BOOLEAN-pattern-fires", "langs": [rx.minus(rx.cat(L, fol), rx.alt(*[rx.prefix_lang(p) for p in bools]))], "replay": replay},
        {"name": "boolean/only-true-false", "langs": [rx.minus(L, rx.alt(rx.lit("true"), rx.lit("false")))], "replay": replay},
    ]


def build_ws():
    """The field rule is  "NAME" "::" ws <fragment>: what `ws` derives must be skipped by the reader (spaces only)."""
    import re

    from octave_mcp.core.gbnf_compiler import GBNFCompiler
    from octave_mcp.core.schema_extractor import SchemaDefinition
    from vf import gbnf

    g = GBNFCompiler().compile_schema(SchemaDefinition(name="S", version="1"))
    r = gbnf.Reader(g, False).parse()
    L = gbnf.to_rx(r.rules["ws"], r.rules)
    bad = rx.minus(L, rx.star(rx.lit(" ")))
    if kf_active(PROP, "ws-tab-newline"):
        bad = rx.minus(bad, rx.star(rx.chars(" \t\n")))

    def replay(words):
        ok, text = _read_ok(words[0] + "5", "TYPE[NUMBER]")
        return (not ok), text

    wit = [("ws-tab-newline", ["\t"], "the field rule's `ws` derives TAB and newline between '::' and the value; the reader rejects the tab (E005) and reads a newline as the value", lambda a: replay(a)[0])]
    return [{"name": "ws/only-skippable-space", "langs": [bad], "replay": replay, "witnesses": wit}]


def date_ob():
    def run(tier):
        from octave_mcp.core import constraints as c
        from octave_mcp.core.gbnf_compiler import GBNFCompiler
        from vf import gbnf

        res = {"engine": "rx", "verdict": "confirmed", "paths": 0, "queries": 0, "solver_s": 0.0, "known_findings": [], "replays": [], "reach_witnessed": True}
        rx.Query.reset()
        for name, frag, chain in (("DATE", GBNFCompiler()._compile_date(), "DATE"), ("ISO8601", GBNFCompiler()._compile_iso8601(), "ISO8601")):
            L = gbnf.fragment_lang(frag)
            st, w = rx.nonempty(name + "/some-derivation", L)
            if st != "sat":
                res["verdict"] = "inconclusive"
                res["detail"] = f"{name} fragment language: {st}"
                continue
            ok, text = _read_ok(w, chain)
            if ok:
                continue
            if kf_active(PROP, "date-grammar"):
                res["known_findings"].append(f"date-grammar: the {name} rule derives bare digits such as {w}; the reader splits them into several NUMBER tokens (and the rule admits non-calendar dates), so the {name} constraint rejects what the grammar generates")
            else:
                res["verdict"] = "violated"
                res["detail"] = text
                from vf.ob import write_replay

                res["replays"].append(write_replay(PROP, "RX.date-iso8601-fragments", {"query": name, "words": [w]}, text))
        res["queries"] = rx.Query.count
        res["solver_s"] = round(rx.Query.seconds, 3)
        return res

    return {"id": "RX.date-iso8601-fragments", "engine": "rx", "timeout": 120, "bound": "witness derivation of each fragment (whole clause is a listed finding)", "functions": ["GBNFCompiler._compile_date", "_compile_iso8601", "constraints.DateConstraint", "Iso8601Constraint"], "run": run}


def _mk_const(n):
    def C_const(kind: int, s: str, n: int, b: bool, req: int) -> int:
        """
        pre: 0 <= kind <= 3 and len(s) <= N and 0 <= req <= 2 and -1000000 <= n <= 1000000
        post: _ != 0
        """
        # the CONST literal is exactly the canonical emission of the constant, and the chain accepts the constant
        from octave_mcp.core import constraints as c
        from octave_mcp.core import emitter as em
        from octave_mcp.core.gbnf_compiler import GBNFCompiler
        from vf import gbnf

        v = [s, n, b, None][kind]
        members = [c.ConstConstraint(v)]
        if req == 1:
            members.insert(0, c.RequiredConstraint())
        elif req == 2:
            members.append(c.OptionalConstraint())
        chain = c.ConstraintChain(members)
        comp = GBNFCompiler()
        frag = comp.compile_chain(chain)
        # one literal whose text is the canonical emission of the constant (C12 G.escape-literal-identity: the
        # reference reader decodes '"' + _escape_literal(t) + '"' to exactly t)
        if frag != '"' + comp._escape_literal(em.emit_value(v)) + '"':
            return VIOL
        if req == 1 and (v is None or (kind == 0 and s == "")):
            return SKIP  # REQ ∧ CONST[empty]: unsatisfiable chain, nothing the grammar could generate validates
        return HELD if chain.evaluate(v, "F").valid else VIOL

    C_const.__doc__ = C_const.__doc__.replace("N", str(n))
    return C_const


def _mk_enum(n):
    def C_enum(a: str, which: int, req: bool) -> int:
        """
        pre: len(a) <= N and 0 <= which <= 1
        post: _ != 0
        """
        from octave_mcp.core import constraints as c
        from octave_mcp.core import emitter as em
        from octave_mcp.core.gbnf_compiler import GBNFCompiler
        from vf import gbnf

        allowed = [a, "zz"]
        members = [c.EnumConstraint(list(allowed))] + ([c.RequiredConstraint()] if req else [])
        chain = c.ConstraintChain(members)
        comp = GBNFCompiler()
        frag = comp.compile_chain(chain)
        if frag != '("' + comp._escape_literal(em.emit_value(a)) + '" | "' + comp._escape_literal(em.emit_value("zz")) + '")':
            return VIOL
        v = allowed[which]
        if req and v == "":
            return SKIP
        if v != "zz" and "zz".startswith(v) is False and a.startswith("zz"):
            pass
        res = chain.evaluate(v, "F")
        if not res.valid:
            # an exact member is always accepted (prefix ambiguity only concerns non-members)
            return VIOL
        return HELD

    C_enum.__doc__ = C_enum.__doc__.replace("N", str(n))
    return C_enum


def replay_rx(ob_id, query, words):
    for b in (build_number, build_boolean, build_ws):
        for q in b():
            if q["name"] == query and "replay" in q:
                return q["replay"](words)
    if query in ("DATE", "ISO8601"):
        ok, text = _read_ok(words[0], query)
        return (not ok), text
    return False, "query not found"


def obligations(tier):
    th = tier == "thorough"
    cf = "core.gbnf_compiler.GBNFCompiler."
    obs = [
        rx_ob(PROP, "RX.number-fragment-reads-as-NUMBER", build_number, bound="all derivations of the TYPE[NUMBER] / RANGE fragments (any length)", functions=[cf + "_compile_type", cf + "_compile_range", "lexer.TOKEN_PATTERNS"]),
        rx_ob(PROP, "RX.boolean-fragment-reads-as-BOOLEAN", build_boolean, bound="all derivations of the TYPE[BOOLEAN] fragment", functions=[cf + "_compile_type", "lexer.TOKEN_PATTERNS"]),
        rx_ob(PROP, "RX.ws-derivations-are-skipped", build_ws, bound="all derivations of the ws rule", functions=[cf + "compile_schema (ws rule)", "lexer.tokenize (space skipping)"]),
        date_ob(),
        xh_ob(PROP, "C.const-literal-is-canonical-emission", _mk_const(3 if th else 2), timeout=1500 if th else 500, bound=f"CONST of str <= {3 if th else 2} chars (any character) / int |n| <= 10^6 / bool / null, alone, with REQ, with OPT", functions=[cf + "_compile_const", cf + "compile_chain", "emitter.emit_value", "constraints.ConstraintChain.evaluate"]),
        xh_ob(PROP, "C.enum-literals-are-canonical-emission", _mk_enum(3 if th else 2), timeout=1500 if th else 500, bound=f"ENUM [a,'zz'] with symbolic a <= {3 if th else 2} chars (any character), with and without REQ", functions=[cf + "_compile_enum", cf + "compile_chain", "emitter.emit_value", "constraints.EnumConstraint.evaluate"]),
    ]
    return select(obs, tier)
