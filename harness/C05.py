"""C05 - literal zones pass through every pipeline byte-for-byte.

XH on the real lexer pieces (_normalize_with_fence_detection, _evaluate_fence_line, tokenize's fence-span branch), the
parser's parse_literal_zone, the emitter's three zone paths and every value pipeline that may see a zone (repair, write
normalisation, eject converters, sealer), with symbolic zone body / info tag / fence length / indent.
"""
from __future__ import annotations

from vf.ob import HELD, SKIP, VIOL, kf_active, select, xh_ob

PROP = "C05"
META = {
    "explanation": "CrossHair symbolic execution of the real fence detector, tokenizer, parser, emitter and value pipelines on symbolic zone content",
    "assumptions": ["NFC replaced by the faithful fragment stub (identity except U+212B -> U+00C5), so 'no NFC inside a zone' and 'NFC outside' stay observable",
                    "bodies up to 3 characters (any character incl. tab, newline, backtick, backslash, quote, U+212B); fence lengths 3-5; larger bodies rest on the fence detector lemma"],
}

FENCES = ["```", "````", "`````"]
TAGS = ["", "py", " x "]


def _setup():
    from vf import stubs

    stubs.stub_nfc()


def _inner_fence(body, open_len):
    """Does some line of the body look like a fence of >= open_len backticks (then closing/E007 rules apply)?"""
    for line in body.split("\n"):
        t = line.lstrip(" ")
        n = 0
        while n < len(t) and t[n] == "`":
            n += 1
        if n >= 3 and n >= open_len and "`" not in t[n:]:
            return True
    return False


def _detect_core(body, fi, ti, indent, close_indent):
    from octave_mcp.core import lexer as lx

    fence = FENCES[fi]
    before = "A::Å\nK::\n"
    zone = " " * indent + fence + TAGS[ti] + "\n" + body + "\n" + " " * close_indent + fence
    after = "\nZ::Å\n"
    text = before + zone + after
    if _inner_fence(body, len(fence)):
        return SKIP  # a backtick run >= the fence inside the body is not 'content shorter than the fence'
    try:
        out, spans = lx._normalize_with_fence_detection(text)
    except lx.LexerError:
        return VIOL  # well-formed zone must be accepted
    if len(spans) != 1:
        return VIOL
    start, end, marker, tag = spans[0]
    nb = before.replace("Å", "Å")
    if start != len(nb) or end != start + len(zone):
        return VIOL
    if out[start:end] != zone:
        return VIOL  # zone bytes (body incl. U+212B, tabs, backslashes) must be untouched
    if out[:start] != nb or out[end:] != after.replace("Å", "Å"):
        return VIOL  # text outside the fences is still normalised
    if marker != fence:
        return VIOL
    want_tag = TAGS[ti].strip() or None
    if tag != want_tag:
        return VIOL
    return HELD



def _mk_detect(nbody, variant="(ti <= 1 and indent == close_indent and indent != 1)"):
    def F_detect(body: str, fi: int, ti: int, indent: int, close_indent: int) -> int:
        """
        pre: len(body) <= N and 0 <= fi <= 2 and 0 <= ti <= 2 and 0 <= indent <= 2 and 0 <= close_indent <= 2 and VARIANT
        post: _ != 0
        """
        return _detect_core(body, fi, ti, indent, close_indent)

    F_detect.__doc__ = F_detect.__doc__.replace("VARIANT", variant).replace("<= N", "<= " + str(nbody))
    return F_detect


def F_reject(fi: int, extra: int, trailing: bool) -> int:
    """
    pre: 0 <= fi <= 2 and 0 <= extra <= 2
    post: _ != 0
    """
    # a fence line of equal length with trailing content, or of greater length, inside an open zone is E007; an unclosed zone E006
    from octave_mcp.core import lexer as lx

    fence = FENCES[fi]
    inner = fence + "`" * extra + (" x" if trailing else "")
    if extra == 0 and not trailing:
        text = "K::\n" + fence + "\nbody\n"  # never closed
        want = "E006"
    else:
        text = "K::\n" + fence + "\n" + inner + "\n" + fence + "\n"
        want = "E007"
    try:
        lx._normalize_with_fence_detection(text)
    except lx.LexerError as e:
        return HELD if e.error_code == want else VIOL
    return VIOL


def _mk_span_branch(nbody):
    def S_span(body: str, fi: int, tagged: bool, indent: int) -> int:
        """
        pre: len(body) <= N and 0 <= fi <= 2 and 0 <= indent <= 2 and indent != 1
        post: _ != 0
        """
        # detector spans -> tokenizer's fence-span branch (sliced from the real tokenize): FENCE_OPEN / LITERAL_CONTENT /
        # FENCE_CLOSE carry marker, tag and exactly the body; scanning resumes right after the closing fence
        from octave_mcp.core import lexer as lx
        from vf.slices import tokenize_fence_branch

        fence = FENCES[fi]
        tag = "py" if tagged else ""
        if _inner_fence(body, len(fence)):
            return SKIP
        pre = "K::\n"
        zone = " " * indent + fence + tag + "\n" + body + "\n" + " " * indent + fence
        text = pre + zone + "\nZ::1\n"
        out, spans = lx._normalize_with_fence_detection(text)
        toks, pos, line, column, idx = tokenize_fence_branch()(out, spans, 0, spans[0][0], 2, 1, [])
        T = lx.TokenType
        if indent > 0:
            # the fence line's indentation is reported like any other line's
            if not toks or toks[0].type is not T.INDENT or toks[0].value != indent:
                return VIOL
            toks = toks[1:]
        kinds = [t.type for t in toks]
        if kinds != [T.FENCE_OPEN, T.LITERAL_CONTENT, T.FENCE_CLOSE, T.NEWLINE]:
            return VIOL
        if toks[0].value != {"fence_marker": fence, "info_tag": tag or None} or toks[2].value != fence:
            return VIOL
        if toks[1].value != body:
            if not (body == "" and toks[1].value == ""):
                return VIOL
        if out[pos:] != "Z::1\n" or idx != 1:
            return VIOL
        if line != 2 + 2 + body.count("\n") + 1:
            return VIOL  # line numbering after the zone (receipts and errors point at the right line)
        return HELD

    S_span.__doc__ = S_span.__doc__.replace("N", str(nbody))
    return S_span


def _setup_slices():
    _setup()
    from vf.slices import tokenize_fence_branch

    tokenize_fence_branch()


def _mk_pipeline(nbody, as_child):
    def T_pipeline(body: str, fi: int, tagged: bool) -> int:
        """
        pre: len(body) <= N and 0 <= fi <= 2
        post: _ != 0
        """
        # the real tokenizer lays out the tokens of the skeleton (concretely, placeholder body); the LITERAL_CONTENT
        # token then carries the symbolic body; real Parser + emit run symbolically: fields equal the source, neighbours
        # keep their values, emitted text has the fence lines at node indent and the body verbatim
        from crosshair.core import realize
        from crosshair.tracers import NoTracing
        from octave_mcp.core import lexer as lx
        from octave_mcp.core.ast_nodes import Assignment, Block, LiteralZoneValue
        from octave_mcp.core.emitter import emit
        from octave_mcp.core.parser import Parser

        fi, tagged = realize(fi), realize(tagged)
        fence = FENCES[fi]
        tag = "py" if tagged else ""
        if _inner_fence(body, len(fence)):
            return SKIP
        with NoTracing():
            if as_child == 2:
                text = "===D===\nA::1\nB:\n  C::2\n  " + fence + tag + "\nPLACEHOLDER\n  " + fence + "\n  E::4\nZ::3\n===END===\n"
            elif as_child:
                text = "===D===\nA::1\nB:\n  " + fence + tag + "\nPLACEHOLDER\n  " + fence + "\n  C::2\nZ::3\n===END===\n"
            else:
                text = "===D===\nA::1\nK::\n" + fence + tag + "\nPLACEHOLDER\n" + fence + "\nZ::3\n===END===\n"
            toks, _ = lx.tokenize(text)
            lit = [i for i, t in enumerate(toks) if t.type is lx.TokenType.LITERAL_CONTENT]
            if len(lit) != 1 or toks[lit[0]].value != "PLACEHOLDER":
                return VIOL
        toks[lit[0]] = lx.Token(lx.TokenType.LITERAL_CONTENT, body, toks[lit[0]].line, 1)
        doc = Parser(toks, strict_structure=True).parse_document()
        if as_child:
            if len(doc.sections) != 3 or not isinstance(doc.sections[1], Block):
                return VIOL
            ch = doc.sections[1].children
            if as_child == 2:
                if len(ch) != 3 or ch[0].key != "C" or ch[0].value != 2 or ch[1].key != "" or ch[2].key != "E" or ch[2].value != 4:
                    return VIOL
                z = ch[1].value
            else:
                if len(ch) != 2 or ch[0].key != "" or ch[1].key != "C" or ch[1].value != 2:
                    return VIOL
                z = ch[0].value
        else:
            if len(doc.sections) != 3 or not isinstance(doc.sections[1], Assignment) or doc.sections[1].key != "K":
                return VIOL
            z = doc.sections[1].value
        if doc.sections[0].value != 1 or doc.sections[2].value != 3:
            return VIOL  # a fence never swallows or releases neighbouring fields
        if not isinstance(z, LiteralZoneValue):
            return VIOL
        if z.fence_marker != fence or z.info_tag != (tag or None) or z.content != body:
            return VIOL
        out = emit(doc)
        ind = "  " if as_child else ""
        zl = [ind + fence + tag] + ([body] if body != "" else []) + [ind + fence]
        if as_child == 2:
            want = ["===D===", "A::1", "B:", "  C::2"] + zl + ["  E::4", "Z::3", "===END===", ""]
        elif as_child:
            want = ["===D===", "A::1", "B:"] + zl + ["  C::2", "Z::3", "===END===", ""]
        else:
            want = ["===D===", "A::1", "K::"] + zl + ["Z::3", "===END===", ""]
        if out != "\n".join(want):
            return VIOL
        return HELD

    T_pipeline.__doc__ = T_pipeline.__doc__.replace("N", str(nbody))
    return T_pipeline


def _mk_pipeline_in(nbody, variant):
    """Zone as bare child of a § section / of a depth-2 block, with a leading comment in front of it."""

    def T_pipeline_in(body: str, fi: int, tagged: bool) -> int:
        """
        pre: len(body) <= N and 0 <= fi <= 2
        post: _ != 0
        """
        from crosshair.core import realize
        from crosshair.tracers import NoTracing
        from octave_mcp.core import lexer as lx
        from octave_mcp.core.ast_nodes import Assignment, Block, LiteralZoneValue, Section
        from octave_mcp.core.emitter import emit
        from octave_mcp.core.parser import Parser

        fi, tagged = realize(fi), realize(tagged)
        fence = FENCES[fi]
        tag = "py" if tagged else ""
        if _inner_fence(body, len(fence)):
            return SKIP
        with NoTracing():
            if variant == "section":
                head, ind = ["===D===", "A::1", "§1::S", "  C::2", "  // lc"], "  "
                tail = ["  E::4", "Z::3", "===END===", ""]
            else:
                head, ind = ["===D===", "A::1", "B:", "  N:", "    C::2", "    // lc"], "    "
                tail = ["    E::4", "  F::5", "Z::3", "===END===", ""]
            text = "\n".join(head + [ind + fence + tag, "PLACEHOLDER", ind + fence] + tail)
            toks, _ = lx.tokenize(text)
            lit = [i for i, t in enumerate(toks) if t.type is lx.TokenType.LITERAL_CONTENT]
            if len(lit) != 1 or toks[lit[0]].value != "PLACEHOLDER":
                return VIOL
        toks[lit[0]] = lx.Token(lx.TokenType.LITERAL_CONTENT, body, toks[lit[0]].line, 1)
        doc = Parser(toks, strict_structure=True).parse_document()
        if len(doc.sections) != 3 or doc.sections[0].value != 1 or doc.sections[2].value != 3:
            return VIOL  # a fence never swallows or releases neighbouring fields
        box = doc.sections[1]
        if variant == "section":
            if not isinstance(box, Section):
                return VIOL
        else:
            if not isinstance(box, Block) or len(box.children) != 2 or not isinstance(box.children[0], Block) or box.children[1].key != "F" or box.children[1].value != 5:
                return VIOL
            box = box.children[0]
        ch = box.children
        if len(ch) != 3 or ch[0].key != "C" or ch[0].value != 2 or ch[1].key != "" or ch[2].key != "E" or ch[2].value != 4:
            return VIOL
        z = ch[1].value
        if not isinstance(z, LiteralZoneValue) or z.fence_marker != fence or z.info_tag != (tag or None) or z.content != body:
            return VIOL
        if list(ch[1].leading_comments) != ["lc"]:
            return VIOL
        out = emit(doc)
        want = head + [ind + fence + tag] + ([body] if body != "" else []) + [ind + fence] + tail
        return HELD if out == "\n".join(want) else VIOL

    T_pipeline_in.__doc__ = T_pipeline_in.__doc__.replace("N", str(nbody))
    return T_pipeline_in


def _mk_emit(nbody):
    def E_emit(content: str, fi: int, tagged: bool, indent: int, route: int) -> int:
        """
        pre: len(content) <= N and 0 <= fi <= 2 and 0 <= indent <= 2 and 0 <= route <= 2
        post: _ != 0
        """
        # the three emission routes (assignment value, bare block child, emit_value) write the fences at node indent
        # and the content verbatim: no escaping, trimming or re-indentation
        from octave_mcp.core import emitter as em
        from octave_mcp.core.ast_nodes import Assignment, Block, LiteralZoneValue

        fence = FENCES[fi]
        tag = "py" if tagged else None
        z = LiteralZoneValue(content=content, info_tag=tag, fence_marker=fence)
        ind = "  " * indent
        open_line = fence + (tag or "")
        if route == 0:
            got = em.emit_assignment(Assignment(key="K", value=z), indent)
            want = [ind + "K::", ind + open_line] + ([content] if content else []) + [ind + fence]
            return HELD if got == "\n".join(want) else VIOL
        if route == 1:
            got = em.emit_block(Block(key="B", children=[Assignment(key="", value=z)]), indent)
            cind = "  " * (indent + 1)
            want = [ind + "B:", cind + open_line] + ([content] if content else []) + [cind + fence]
            return HELD if got == "\n".join(want) else VIOL
        got = em.emit_value(z, indent)
        want = open_line + "\n" + content + ("\n" if content and not content.endswith("\n") else "") + fence
        return HELD if got == want else VIOL

    E_emit.__doc__ = E_emit.__doc__.replace("N", str(nbody))
    return E_emit


def V_untouched(content: str, tag: str, fi: int, route: int, fix: bool) -> int:
    """
    pre: len(content) <= 4 and len(tag) <= 2 and 0 <= fi <= 2 and 0 <= route <= 5
    post: _ != 0
    """
    # repair, write-tool value normalisation, eject converters and the sealer leave the three fields untouched
    from octave_mcp.core import constraints as c
    from octave_mcp.core import repair as r
    from octave_mcp.core.ast_nodes import Assignment, Block, Document, LiteralZoneValue
    from octave_mcp.core.holographic import HolographicPattern
    from octave_mcp.core.repair_log import RepairLog
    from octave_mcp.core.schema_extractor import FieldDefinition, SchemaDefinition
    from octave_mcp.mcp import eject, write

    z = LiteralZoneValue(content=content, info_tag=tag or None, fence_marker=FENCES[fi])
    fd = FieldDefinition(name="K", pattern=HolographicPattern(example="x", constraints=c.ConstraintChain([c.EnumConstraint(["A"]), c.TypeConstraint("NUMBER")]), target=None))
    if route == 0:
        out, did = r.repair_value(z, fd, RepairLog(repairs=[]), fix=fix)
        return HELD if out is z and not did else VIOL
    if route == 1:
        doc = Document(name="D", sections=[Assignment(key="K", value=z), Block(key="B", children=[Assignment(key="K", value=z)])])
        _, log = r.repair(doc, [], fix=fix, schema=SchemaDefinition(name="S", version="1", fields={"K": fd}))
        ok = doc.sections[0].value is z and doc.sections[1].children[0].value is z and not log.repairs
    elif route == 2:
        ok = write._normalize_value_for_ast(z) is z
        n = write._normalize_value_for_ast([z, {"a": z}])
        ok = ok and n.items[0] is z and n.items[1].pairs["a"] is z
    elif route == 3:
        d = eject._convert_value(z)
        ok = d == {"__literal_zone__": True, "content": content, "info_tag": tag or None, "fence_marker": FENCES[fi]}
    elif route == 4:
        md = eject._format_markdown_value(z)
        ok = md == FENCES[fi] + (tag or "") + "\n" + content + ("\n" if content and not content.endswith("\n") else "") + FENCES[fi]
    else:
        doc = Document(name="D", sections=[Assignment(key="K", value=z)])
        write.WriteTool()._apply_changes(doc, {"OTHER": 1})
        write.WriteTool()._apply_mutations(doc, {"M": 1})
        ok = doc.sections[0].value is z
    if not ok:
        return VIOL
    return HELD if (z.content == content and z.info_tag == (tag or None) and z.fence_marker == FENCES[fi]) else VIOL


def _mk_shorter_fence_line(ntail):

    def F_shorter(tail: str, head: str, fi: int, m: int, pad: int, ti: int) -> int:
        """
        pre: len(tail) <= N and len(head) == 0 and 1 <= fi <= 2 and 3 <= m <= 4 and 0 <= pad <= 1 and ti == 0
        post: _ != 0
        """
        # the quantifier's "backtick runs shorter than the fence": a content line that itself looks like a (shorter)
        # fence line - optional padding, m backticks, then symbolic text (its would-be info string) - is content
        from crosshair.core import realize

        from vf.ob import pick

        fi, m, pad, ti = pick(fi, 2, 1), pick(m, 2, 3), pick(pad, 2), pick(ti, 1)
        if m >= len(FENCES[fi]):
            return SKIP
        body = (head + "\n" if head != "" else "") + " " * pad + "`" * m + tail
        return _detect_core(body, fi, ti, 0, 0)

    F_shorter.__doc__ = F_shorter.__doc__.replace("<= N", "<= " + str(ntail))
    return F_shorter


def _mk_prepass(n1):
    def W_prepass(i1: int, i2: int, fi: int, tagged: bool, pad: int) -> int:
        """
        pre: 0 <= i1 <= 13 and 0 <= i2 <= 3 and 0 <= fi <= 2 and 0 <= pad <= 2
        post: _ != 0
        """
        # octave_write's pre-lexing pass (NAME{q} -> NAME<q>) must leave zone bytes alone whatever else the zone holds
        # (quotes, comment markers, shorter backtick runs on the lines before the NAME{q} text), and still repair outside
        from crosshair.core import realize
        from octave_mcp.mcp.write import WriteTool

        from crosshair.tracers import NoTracing

        from vf.ob import pick, pickb

        fi, tagged, pad, i1, i2 = pick(fi, 3), pickb(tagged), pick(pad, 3), pick(i1, 14), pick(i2, 4)
        fence = FENCES[fi]
        l1 = ["", '""', "//", '"a"', "// c", "```", "````", '"', "`", "x", "{", "A{b}", 'k::"v" // c', "\t"][i1]
        l2 = ["", "x", "}", " // c"][i2]
        body = l1 + "\n" + " " * pad + "A{b}" + l2
        if _inner_fence(body, len(fence)) or "\r" in body:
            return SKIP
        zone = fence + ("js" if tagged else "") + "\n" + body + "\n" + fence
        text = "===D===\nK::\n" + zone + "\nX::C{d}\n===END===\n"
        with NoTracing():
            out, corr = WriteTool()._repair_curly_brace_annotations(text)
        want = "===D===\nK::\n" + zone + "\nX::C<d>\n===END===\n"
        if out != want:
            return VIOL
        return HELD if len(corr) == 1 and corr[0].get("before") == "C{d}" else VIOL

    W_prepass.__doc__ = W_prepass.__doc__.replace("<= N", "<= " + str(n1))
    return W_prepass


def _fix_fi(fn, fi):
    fn.__doc__ = fn.__doc__.replace("0 <= fi <= 2", f"fi == {fi}")
    return fn


def _fix_plain(fn):
    fn.__doc__ = fn.__doc__.replace("0 <= fi <= 2 and 0 <= ti <= 2 and 0 <= indent <= 2 and 0 <= close_indent <= 2", "fi == 0 and ti == 0 and indent == 0 and close_indent == 0")
    return fn


def _odd_layouts():
    return _mk_detect(1, variant="fi == 0 and ((ti == 2 and indent == 0 and close_indent == 0) or (ti == 0 and indent == 1 and close_indent == 1) or (ti == 0 and indent == 2 and close_indent == 0) or (ti == 1 and indent == 0 and close_indent == 2))")


def empty_line_witness_ob():
    def run(tier):
        from octave_mcp.core.emitter import emit
        from octave_mcp.core.parser import parse

        res = {"engine": "xh", "verdict": "confirmed", "paths": 1, "queries": 0, "solver_s": 0.0, "known_findings": [], "replays": [], "reach_witnessed": True}
        src = "===D===\nK::\n```\n\n```\n===END===\n"
        out = emit(parse(src))
        if "```\n\n```" not in out:
            if kf_active(PROP, "zone-single-empty-line"):
                res["known_findings"].append("zone-single-empty-line: a zone whose only line is empty (fence, empty line, fence) is emitted as fence, fence: content '' cannot tell zero lines from one empty line")
            else:
                res["verdict"] = "violated"
                res["detail"] = f"zone with one empty line emitted as {out!r}"
        return res

    return {"id": "W.single-empty-line-zone-witness", "engine": "xh", "timeout": 60, "bound": "concrete witness of the listed finding", "functions": ["lexer.tokenize (fence span branch)", "emitter.emit_assignment"], "run": run}


def obligations(tier):
    th = tier == "thorough"
    st = ["NFC fragment stub"]
    lf = ["lexer._normalize_with_fence_detection", "lexer._evaluate_fence_line", "lexer.FENCE_PATTERN"]
    tf = ["lexer.tokenize", "parser.Parser.parse_document", "parse_literal_zone", "parse_section", "parse_value", "emitter.emit", "emit_assignment", "emit_block"]
    obs = [
    ] + [
        xh_ob(PROP, f"F.fence-detector-preserves-zone-bytes[fence={len(FENCES[fi])}]", _fix_fi(_mk_detect(3 if th else 2), fi), timeout=3000 if th else 1200, setup=_setup, stubs=st, bound=f"body <= {3 if th else 2} chars of ANY character (tab, newline, backtick, backslash, quote, U+212B ...), fence length {len(FENCES[fi])}, tags none/py, indent 0 or 2 (equal on both fences); NFC-sensitive text before and after the zone", functions=lf)
        for fi in range(3)
    ] + [
        xh_ob(PROP, "F.fence-detector-preserves-zone-bytes[content-line-shaped-like-a-shorter-fence]", _mk_shorter_fence_line(2 if th else 1), timeout=3000 if th else 1200, setup=_setup, stubs=st, bound=f"fence length 4-5; a content line made of 0-1 spaces, 3..(fence-1) backticks and symbolic text <= {2 if th else 1} chars of any character (incl. U+212B, tab); tags none/py", functions=lf),
        xh_ob(PROP, "W.curly-brace-pre-pass-keeps-zone-bytes", _mk_prepass(0), timeout=3000 if th else 1200, bound=f"zone (fence 3-5, with/without tag) whose body is a first line from a 14-text pool (empty, quoted strings, comment markers, backtick runs shorter/equal 3-4, lone quote, brace, another NAME{{q}}, field with string and comment, tab) followed by a line '<0-2 spaces>A{{b}}' + one of 4 tails (solver-indexed: one concrete run of the real pre-pass per choice); a NAME{{q}} outside the zone must still be repaired", functions=["mcp.write.WriteTool._repair_curly_brace_annotations", "lexer.FENCE_PATTERN"]),
        xh_ob(PROP, "F.fence-detector-preserves-zone-bytes[odd-layouts]", _odd_layouts(), timeout=3000 if th else 900, setup=_setup, stubs=st, bound="body <= 1 char; fence ```; four layouts: padded info tag ' x ', odd indent 1/1, opening indent 2 closing 0, opening 0 closing 2", functions=lf),
        xh_ob(PROP, "F.fence-detector-preserves-zone-bytes[body<=4,plain]", _fix_plain(_mk_detect(4)), timeout=3000 if th else 900, setup=_setup, stubs=st, bound="body <= 4 chars of any character, fence ```, no tag, no indent", functions=lf),
        xh_ob(PROP, "S.fence-span-branch-of-tokenize", _mk_span_branch(2 if th else 1), timeout=3000 if th else 900, setup=_setup_slices, stubs=st, bound=f"body <= {2 if th else 1} char(s) any character, fence 3-5, with/without tag, indent 0 or 2", functions=lf + ["lexer.tokenize[fence-span branch, AST slice]"]),
        xh_ob(PROP, "F.nested-and-unterminated-fences-rejected", F_reject, timeout=300, setup=_setup, stubs=st, bound="inner fence of equal length with trailing text / greater length (E007), unterminated zone (E006); fence length 3-5", functions=lf),
        xh_ob(PROP, "E.emission-routes-verbatim", _mk_emit(4 if th else 3), timeout=1500 if th else 600, bound=f"content <= {4 if th else 3} chars any character, fence 3-5, with/without tag, indent 0-2, 3 routes", functions=["emitter.emit_assignment", "emitter.emit_block", "emitter.emit_value"]),
        xh_ob(PROP, "V.value-pipelines-leave-zones-untouched", V_untouched, timeout=900, bound="content <= 4, tag <= 2 chars any character; repair_value, repair tree walk (two depths), _normalize_value_for_ast (direct, in list, in dict), eject._convert_value, _format_markdown_value, _apply_changes/_apply_mutations", functions=["repair.repair_value", "repair._repair_ast_node", "write._normalize_value_for_ast", "eject._convert_value", "eject._format_markdown_value", "write.WriteTool._apply_changes"]),
        empty_line_witness_ob(),
    ]
    nb = 4 if th else 3
    obs.append(xh_ob(PROP, "T.tokenize-parse-emit[assignment-value]", _mk_pipeline(nb, False), timeout=3000 if th else 900, setup=_setup, stubs=st, bound=f"token layout from the real tokenizer on the skeleton; LITERAL_CONTENT value symbolic <= {nb} chars of any character, fence 3-5, with/without tag; zone as assignment value between two other fields", functions=tf))
    obs.append(xh_ob(PROP, "T.tokenize-parse-emit[bare-block-child]", _mk_pipeline(nb, True), timeout=3000 if th else 900, setup=_setup, stubs=st, bound=f"same, zone as bare child of a block at depth 1, followed by a sibling and a top-level field", functions=tf))
    obs.append(xh_ob(PROP, "T.tokenize-parse-emit[bare-section-child-after-comment]", _mk_pipeline_in(nb, "section"), timeout=3000 if th else 900, setup=_setup, stubs=st, bound="same, zone as second of three children of a § section, a comment line in front of it, followed by a top-level field", functions=tf))
    obs.append(xh_ob(PROP, "T.tokenize-parse-emit[bare-child-of-depth-2-block-after-comment]", _mk_pipeline_in(nb, "nested"), timeout=3000 if th else 900, setup=_setup, stubs=st, bound="same, zone as second of three children of a block nested in a block (indent 4), a comment line in front of it, followed by fields at depth 1 and 0", functions=tf))
    obs.append(xh_ob(PROP, "T.tokenize-parse-emit[bare-block-child-between-siblings]", _mk_pipeline(nb, 2), timeout=3000 if th else 900, setup=_setup, stubs=st, bound="same, zone as second of three children of a block", functions=tf))
    return select(obs, tier)
