"""C16 - writes are all-or-nothing at every interruption point.   (also the building blocks of C17)

XH + fsmodel: the real file_ops.atomic_write_octave and the real WRITE FILE block of WriteTool.execute run under
CrossHair over an in-memory file system whose fault schedule (two injected failures with symbolic step and errno kind,
one process-kill point) and scenario (file existed, mode bits, base_hash none/matching/stale, parent directory missing)
are solver variables.
"""
from __future__ import annotations

from vf.ob import HELD, SKIP, VIOL, kf_active, select, xh_ob

PROP = "C16"
META = {
    "explanation": "CrossHair symbolic execution of the real write paths over vf/fsmodel.py with symbolic fault/crash schedule",
    "assumptions": [
        "file-system model: regular files, directories, symlinks; os.replace atomic; open(..,'w') truncates visibly at once; "
        "data visible at flush/close; crash = process kill (fsync ordering / power loss outside the claim)",
        "SHA-256 replaced by an injective stub ('h:'+content)",
        "path validation stubbed to 'valid' here (C19 decides it)",
    ],
}

TARGET = "/sb/d/t.oct.md"
MODES = [0o644, 0o600, 0o444]
MAXSTEP = 30


def _world(existed, mode_i, parent_missing):
    from vf.fsmodel import FS

    fs = FS()
    fs.dirs |= {"/cwd", "/sb"}
    if not parent_missing:
        fs.dirs.add("/sb/d")
        if existed:
            fs.files[TARGET] = ["OLD", MODES[mode_i]]
    return fs


def _sched(fs, f1, k1, f2, k2, crash_at):
    fs.f1, fs.k1, fs.f2, fs.k2, fs.crash_at = f1, k1, f2, k2, crash_at


def _tmp_left(fs):
    return [p for p in fs.files if p.endswith(".tmp")]


def judge(fs, init, result, new_content, had_file, old_mode, status_key="status", hash_key="canonical_hash"):
    """The C16 clauses on the model state.  result None = the process was killed."""
    files, dirs, links = fs.visible()
    t = files.get(TARGET)
    old = init[0].get(TARGET)
    # all-or-nothing, at every point (crash or return)
    if t != old:
        if t is None or t[0] != new_content:
            return VIOL  # truncated / empty / mixed / vanished
    if result is None:
        return HELD
    if result.get(status_key) == "error":
        if t != old:
            return VIOL  # error return but the target changed
        if _tmp_left(fs) and "unlink" not in fs.failed_ops:
            return VIOL  # temporary file left beside the target
        return HELD
    # success
    if t is None or t[0] != new_content:
        return VIOL
    if result.get(hash_key) != "h:" + t[0]:
        return VIOL
    if had_file and t[1] != old_mode:
        return VIOL  # permission bits not preserved
    if _tmp_left(fs):
        return VIOL
    return HELD


def _bh(kind):
    return [None, "h:OLD", "h:STALE"][kind]


def _variant_pre(variant):
    # variant: 'fault' one failure of any kind | 'crash' kill point only | 'fault+crash' ENOSPC failure and a kill point |
    #          'faults' two ENOSPC failures
    return {
        "fault": "0 <= mode_i <= 2 and 1 <= f1 <= 30 and 0 <= k1 <= 4 and f2 == 0 and crash_at == 0",
        "crash": "0 <= mode_i <= 2 and f1 == 0 and k1 == 0 and f2 == 0 and 1 <= crash_at <= 30",
        "fault+crash": "0 <= mode_i <= 2 and 1 <= f1 <= 30 and k1 == 0 and f2 == 0 and 1 <= crash_at <= 30",
        "faults": "0 <= mode_i <= 2 and 1 <= f1 < f2 <= 30 and k1 == 0 and crash_at == 0",
    }[variant]


def _mk_A(existed, parent_missing, bh, variant):
    def A_atomic(mode_i: int, f1: int, k1: int, f2: int, crash_at: int) -> int:
        """
        pre: PRE
        post: _ != 0
        """
        from octave_mcp.core import file_ops as m
        from vf.fsmodel import ProcessKilled, make_namespace

        fs = _world(existed, mode_i, parent_missing)
        ns = make_namespace(fs)
        m.os, m.tempfile, m.open, m.Path = ns.os, ns.tempfile, ns.open, ns.Path
        m.validate_octave_path = lambda p: (True, None)
        m.compute_hash = lambda c: "h:" + c
        init = fs.visible()
        _sched(fs, f1, k1, f2, 0, crash_at)
        try:
            r = m.atomic_write_octave(TARGET, "NEW", _bh(bh))
        except ProcessKilled:
            r = None
        had = existed and not parent_missing
        return judge(fs, init, r, "NEW", had, MODES[mode_i])

    A_atomic.__doc__ = A_atomic.__doc__.replace("PRE", _variant_pre(variant))
    return A_atomic


def _tool_run(fs, mode, bh, lenient, f1, k1, f2, k2, crash_at, corrections_only=False):
    """Real WriteTool.execute with the parse/emit stage stubbed (canonical text = 'CANON') over the model FS."""
    from harness.C10 import _install_write_stubs
    from harness.toolworld import World, drive
    from vf.fsmodel import ProcessKilled, make_namespace

    w = World()
    mod = _install_write_stubs(w, tok_raises=False, parse_outcome=0, builtin=False, load_outcome=0, n1=0, n2=0, emit_raises=False, compile_raises=False, file_exists=False, hermetic_raises=False)
    ns = make_namespace(fs)
    mod.os, mod.tempfile, mod.open, mod.Path = ns.os, ns.tempfile, ns.open, ns.Path
    mod.WriteTool._compute_hash = lambda self, c: "h:" + c
    kwargs = {"target_path": TARGET, "lenient": lenient, "corrections_only": corrections_only}
    if mode == 0:
        kwargs["content"] = "K::v"
    elif mode == 1:
        kwargs["changes"] = {"K": 1}
    b = _bh(bh)
    if b is not None:
        kwargs["base_hash"] = b
    _sched(fs, f1, k1, f2, k2, crash_at)
    try:
        return drive(mod.WriteTool().execute(**kwargs))
    except ProcessKilled:
        return None


def _mk_T(existed, parent_missing, bh, wmode, variant):
    def T_tool(mode_i: int, f1: int, k1: int, f2: int, crash_at: int) -> int:
        """
        pre: PRE
        post: _ != 0
        """
        fs = _world(existed, mode_i, parent_missing)
        init = fs.visible()
        r = _tool_run(fs, wmode, bh, False, f1, k1, f2, 0, crash_at)
        had = existed and not parent_missing
        return judge(fs, init, r, "CANON", had, MODES[mode_i])

    T_tool.__doc__ = T_tool.__doc__.replace("PRE", _variant_pre(variant))
    return T_tool


def M_mutant_direct_open(existed: bool, crash_at: int) -> int:
    """
    pre: 0 <= crash_at <= 12
    post: _ != 0
    """
    # seeded-fault twin: a harness-local write block that opens the target directly must be REFUTED by the same judge
    from vf.fsmodel import ProcessKilled, make_namespace

    fs = _world(existed, 0, False)
    ns = make_namespace(fs)
    init = fs.visible()
    fs.crash_at = crash_at
    try:
        with ns.open(TARGET, "w", encoding="utf-8") as f:
            f.write("NEW")
            f.flush()
        r = {"status": "success", "canonical_hash": "h:NEW"}
    except ProcessKilled:
        r = None
    return judge(fs, init, r, "NEW", existed, 0o644)


def obligations(tier):
    from vf.ob import make_twin  # noqa: F401

    def mutant_ob():
        def run(t):
            from vf import xh

            r = xh.run(M_mutant_direct_open, timeout=120)
            ok = r.status == "refuted"
            return {"engine": "xh", "verdict": "confirmed" if ok else "inconclusive", "paths": r.paths, "queries": r.solver_calls, "solver_s": r.solver_s,
                    "reach_witnessed": ok, "detail": "" if ok else "seeded direct-open mutant was NOT refuted by the judge: " + r.status, "sample_models": [r.args], "known_findings": [], "replays": []}

        return {"id": "M.seeded-direct-open-is-refuted", "engine": "xh", "timeout": 150, "bound": "harness-local mutant open(target,'w'); crash point 0..12", "functions": ["harness judge (self-test)"], "run": run}

    th = tier == "thorough"
    stA = ["os/tempfile/open/Path -> vf.fsmodel", "compute_hash injective stub", "validate_octave_path -> valid"]
    stT = ["os/tempfile/open/Path -> vf.fsmodel", "_compute_hash injective stub", "parse/emit/validator stage stubbed (canonical text 'CANON')", "_validate_path -> valid"]
    obs = [mutant_ob()]
    BH = ["none", "matching", "stale"]
    WM = ["content", "changes", "normalize"]
    variants = ["fault", "crash", "fault+crash", "faults"]
    for existed in (True, False):
        for pm in (False, True):
            if existed and pm:
                continue
            scen = ("existing-file" if existed else ("new-file" if not pm else "missing-parent"))
            for bh in range(3):
                for v in variants:
                    obs.append(xh_ob(PROP, f"A.atomic_write_octave[{scen},base_hash={BH[bh]},{v}]", _mk_A(existed, pm, bh, v), timeout=900,
                                     bound=f"{scen}, modes 644/600/444, base_hash {BH[bh]}; schedule '{v}': steps 1..30 (every file-system call boundary of the run), errno kinds ENOSPC/EACCES/EIO/EINTR/EROFS for the single-fault variant", functions=["core.file_ops.atomic_write_octave"], stubs=stA))
                for wm in range(3):
                    if not existed and wm != 0 and not th:
                        continue  # changes/normalize on a missing file return E_FILE before any write (thorough keeps them)
                    for v in variants:
                        if not th and v in ("fault", "crash"):
                            continue  # subsumed by fault+crash up to errno kind; kept in thorough
                        obs.append(xh_ob(PROP, f"T.WriteTool.execute[{WM[wm]},{scen},base_hash={BH[bh]},{v}]", _mk_T(existed, pm, bh, wm, v), timeout=1200,
                                         bound=f"{WM[wm]} mode, {scen}, base_hash {BH[bh]}; schedule '{v}'", functions=["mcp.write.WriteTool.execute (file reads, CAS guards, WRITE FILE block)"], stubs=stT))
    return select(obs, tier)
