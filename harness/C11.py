"""C11 - schema repair changes only what it may, and logs every change.

XH: the real repair_value / _attempt_enum_casefold / _attempt_type_coercion / repair / _repair_ast_node / RepairLog.add
run under CrossHair on symbolic field values, ENUM lists, fix flag and document shapes; each path is compared with the
property's clauses (frame condition, permitted changes, log-versus-diff reconciliation, idempotence).
"""
from __future__ import annotations

from vf.ob import HELD, SKIP, VIOL, select, xh_ob

PROP = "C11"
META = {
    "explanation": "CrossHair symbolic execution of the real repair functions against the property's clauses",
    "assumptions": ["int()/float() of a symbolic str only enumerate under CrossHair: numeric texts are fully symbolic up to 2 chars and otherwise a solver-indexed pool covering every notation named in the property"],
}

NUM_TEXTS = ["42", "-7", "+5", "007", " 12 ", "1_000", "3.5", "1e3", "1E-2", ".5", "5.", "1e400", "-1e400", "nan", "NaN", "inf", "-inf", "infinity", "0x1A", "1,5", "", "  ", "4x", "١٢", "1__0", "_1", "9" * 30, "1.0e999", "e5", "--1"]


def _field(chain_kind, a0, a1):
    """FieldDefinition whose chain is: 0 ENUM[a0,a1] | 1 TYPE[NUMBER] | 2 REQ∧ENUM[a0,a1]∧TYPE[NUMBER] | 3 TYPE[STRING] | 4 REQ only | 5 no pattern"""
    from octave_mcp.core import constraints as c
    from octave_mcp.core.holographic import HolographicPattern
    from octave_mcp.core.schema_extractor import FieldDefinition

    if chain_kind == 5:
        return FieldDefinition(name="F", pattern=None)
    members = {
        0: [c.EnumConstraint([a0, a1])],
        1: [c.TypeConstraint("NUMBER")],
        2: [c.RequiredConstraint(), c.EnumConstraint([a0, a1]), c.TypeConstraint("NUMBER")],
        3: [c.TypeConstraint("STRING")],
        4: [c.RequiredConstraint()],
    }[chain_kind]
    return FieldDefinition(name="F", pattern=HolographicPattern(example="x", constraints=c.ConstraintChain(members), target=None))


def _check_change(old, new, log_entries, chain_kind, a0, a1):
    """A change old -> new with its log entries must be one of the two permitted kinds, logged exactly."""
    import math

    from octave_mcp.core import constraints as c
    from octave_mcp.core.repair_log import RepairTier

    cur = old
    for e in log_entries:
        if e.tier is not RepairTier.REPAIR:
            return False
        if e.rule_id == "ENUM_CASEFOLD":
            if chain_kind not in (0, 2) or not isinstance(cur, str):
                return False
            if e.before != cur or e.after not in (a0, a1):
                return False
            if e.after.lower() != cur.lower() or e.after == cur:
                return False
            if a0.lower() == a1.lower() and a0 != a1:
                return False  # ambiguous match must never be repaired
            cur = e.after
        elif e.rule_id == "TYPE_COERCION":
            if chain_kind not in (1, 2) or not isinstance(cur, str) or e.before != cur:
                return False
            return_later = e
            cur = ("NUM", e.after)
        else:
            return False
    if isinstance(cur, tuple):
        if isinstance(new, bool) or not isinstance(new, (int, float)):
            return False
        if isinstance(new, float) and not math.isfinite(new):
            return False
        if str(new) != cur[1]:
            return False
        if not c.TypeConstraint("NUMBER").evaluate(new, "F").valid:
            return False
        return True
    return new == cur and type(new) is type(cur)


def _mk_value_sym(chain_kind):
    def R_value(kind: int, s: str, n: int, b: bool, fix: bool, a0_i: int, a1_alt: bool) -> int:
        """
        pre: 0 <= kind <= 5 and len(s) <= 2 and 0 <= a0_i <= 4
        post: _ != 0
        """
        from octave_mcp.core import repair as r
        from octave_mcp.core.ast_nodes import ListValue, LiteralZoneValue
        from octave_mcp.core.repair_log import RepairLog

        a1 = "Ab" if a1_alt else "zz"
        a0 = ["ab", "AB", "zz", "", "a"][a0_i]
        if chain_kind in (1, 2) and kind == 0:
            return SKIP  # int()/float() of a symbolic str only enumerate: the numeric-texts obligations cover str values
        for ch in s + a0 + a1:
            if ord(ch) > 127:
                return SKIP  # case mapping of arbitrary Unicode under CrossHair does not exhaust: ASCII here
        v = [s, n, b, None, LiteralZoneValue(content=s, info_tag=None, fence_marker="```"), ListValue(items=[s])][kind]
        log = RepairLog(repairs=[])
        new, did = r.repair_value(v, _field(chain_kind, a0, a1), log, fix=fix)
        changed = not (new is v)
        if did != changed and not (did is False and new == v):
            return VIOL
        if not fix or kind in (1, 2, 3, 4, 5) or chain_kind in (3, 4, 5):
            # fix off / non-strings / literal zones / None / no repairable constraint: untouched, nothing logged
            return HELD if (new is v and not did and not log.repairs) else VIOL
        if new is v or (new == v and type(new) is type(v)):
            if log.repairs:
                return VIOL  # logged a change that did not happen
            # a repair that was possible but skipped is not a violation of C11 (it never demands repairs)
            return HELD
        return HELD if _check_change(v, new, log.repairs, chain_kind, a0, a1) else VIOL

    return R_value


def _mk_value_pool(chain_kind):
    def R_numeric(i: int, fix: bool) -> int:
        """
        pre: 0 <= i <= 29
        post: _ != 0
        """
        import math

        from octave_mcp.core import repair as r
        from octave_mcp.core.repair_log import RepairLog

        v = NUM_TEXTS[i]
        log = RepairLog(repairs=[])
        new, did = r.repair_value(v, _field(chain_kind, "1e3", "42"), log, fix=fix)
        if not fix:
            return HELD if (new is v and not did and not log.repairs) else VIOL
        if new is v:
            return HELD if not log.repairs and not did else VIOL
        if not _check_change(v, new, log.repairs, chain_kind, "1e3", "42"):
            return VIOL
        # lossless: Python's own reading of the text is the finite number that was stored
        try:
            want = float(v.strip())
        except ValueError:
            return VIOL
        if not math.isfinite(want) or float(new) != want:
            return VIOL
        if isinstance(new, int) and int(v.strip()) != new:
            return VIOL
        return HELD

    return R_numeric


# --- tree walk ---------------------------------------------------------------------------------------------------------
def _skeleton(node):
    from octave_mcp.core.ast_nodes import Assignment, Block, Section

    if isinstance(node, Assignment):
        return ("A", node.key)
    if isinstance(node, Block):
        return ("B", node.key, tuple(_skeleton(c) for c in node.children))
    if isinstance(node, Section):
        return ("S", node.section_id, node.key, tuple(_skeleton(c) for c in node.children))
    return ("?", type(node).__name__)


def _leaves(node, out):
    from octave_mcp.core.ast_nodes import Assignment

    if isinstance(node, Assignment):
        out.append(node)
    else:
        for c in getattr(node, "children", []):
            _leaves(c, out)


KEYS = ["STATUS", "COUNT", "OTHER", "NOTE"]


TREE_VALUES = ["on", "x", "7", "oFF"]


def _mk_tree(k0):
  def R_tree(k1: int, k2: int, k3: int, i0: int, i1: int, fix: bool, with_schema: bool, zone_at: int) -> int:
    """
    pre: 0 <= k1 <= 2 and 0 <= k2 <= 2 and 0 <= k3 <= 2 and 0 <= i0 <= 1 and 2 <= i1 <= 3 and 0 <= zone_at <= 4
    post: _ != 0
    """
    # document: top-level assignment, block with two children (one nested block with a child), section with a child.
    # keys chosen by symbolic index (schema names STATUS/COUNT can occur at any depth); values symbolic
    from octave_mcp.core import constraints as c
    from octave_mcp.core import repair as r
    from octave_mcp.core.ast_nodes import Assignment, Block, Document, LiteralZoneValue, Section
    from octave_mcp.core.holographic import HolographicPattern
    from octave_mcp.core.schema_extractor import FieldDefinition, SchemaDefinition

    v0, v1 = TREE_VALUES[i0], TREE_VALUES[i1]

    def fd(name, members):
        return FieldDefinition(name=name, pattern=HolographicPattern(example="x", constraints=c.ConstraintChain(members), target=None))

    schema = SchemaDefinition(name="S", version="1", fields={"STATUS": fd("STATUS", [c.EnumConstraint(["ON", "Off"])]), "COUNT": fd("COUNT", [c.TypeConstraint("NUMBER")])})
    vals = [v0, v1, v0, v1]
    if 1 <= zone_at <= 4:
        vals[zone_at - 1] = LiteralZoneValue(content=v0, info_tag=None, fence_marker="```")
    a = [Assignment(key=KEYS[k], value=v) for k, v in zip((k0, k1, k2, k3), vals)]
    doc = Document(name="D", meta={"STATUS": v0}, sections=[a[0], Block(key="S", children=[a[1], Block(key="IN", children=[a[2]])]), Section(section_id="1", key="X", children=[a[3]])])
    skel = tuple(_skeleton(s) for s in doc.sections)
    before = [(x, x.value) for x in a]
    meta_before = dict(doc.meta)
    doc2, log = r.repair(doc, [], fix=fix, schema=schema if with_schema else None)
    if doc2 is not doc or tuple(_skeleton(s) for s in doc.sections) != skel or doc.meta != meta_before:
        return VIOL  # keys, nesting, order, META unchanged
    n_changed = 0
    for node, old in before:
        if node.value is old:
            continue
        n_changed += 1
        if not fix or not with_schema or node.key not in ("STATUS", "COUNT") or not isinstance(old, str):
            return VIOL
    if n_changed == 0 and log.repairs:
        return VIOL
    if len(log.repairs) != n_changed:
        return VIOL  # one log entry per change (each field here has a single repairable constraint)
    for node, old in before:
        if node.value is not old:
            es = [e for e in log.repairs if e.before == old]
            if not es:
                return VIOL
            if not _check_change(old, node.value, [es[0]], 0 if node.key == "STATUS" else 1, "ON", "Off"):
                return VIOL
    # idempotence
    snapshot = [x.value for x in a]
    _, log2 = r.repair(doc, [], fix=fix, schema=schema if with_schema else None)
    if log2.repairs or [x.value for x in a] != snapshot:
        return VIOL
    return HELD

  return R_tree


def R_tool_log(n_entries: int, fix: bool) -> int:
    """
    pre: 0 <= n_entries <= 3
    post: _ != 0
    """
    # octave_validate: every RepairLog entry is copied into the envelope exactly once, and repair() runs only with fix
    from types import SimpleNamespace

    from harness.toolworld import World, drive, install_validate_stubs
    from octave_mcp.core.repair_log import RepairEntry, RepairTier

    w = World()
    mod = install_validate_stubs(w, parse_outcome=0, n_parse_warnings=0, builtin=True, load_outcome=1, n_errors_first=1, n_errors_after_fix=0, emit_raises=False, compile_raises=False, zones=False)
    entries = [RepairEntry("ENUM_CASEFOLD", "a%d" % i, "A%d" % i, RepairTier.REPAIR, True, False) for i in range(n_entries)]

    def repair(doc, errors, fix=False, schema=None):
        w.repair_calls += 1
        return doc, SimpleNamespace(repairs=entries if fix else [])

    mod.repair = repair
    res = drive(mod.ValidateTool().execute(schema="ANY", content="X", fix=fix))
    if (w.repair_calls > 0) != fix:
        return VIOL
    got = [(e.get("rule_id"), e.get("before"), e.get("after"), e.get("tier")) for e in res["repairs"] if isinstance(e, dict) and "rule_id" in e]
    want = [("ENUM_CASEFOLD", "a%d" % i, "A%d" % i, "REPAIR") for i in range(n_entries)] if fix else []
    return HELD if got == want else VIOL


def obligations(tier):
    th = tier == "thorough"
    rf = ["core.repair.repair_value", "_attempt_enum_casefold", "_attempt_type_coercion", "repair_log.RepairLog.add"]
    names = ["ENUM", "TYPE[NUMBER]", "REQ∧ENUM∧TYPE[NUMBER]", "TYPE[STRING]", "REQ", "no-pattern"]
    obs = []
    for ck in range(6):
        obs.append(xh_ob(PROP, f"R.repair_value[{names[ck]}]", _mk_value_sym(ck), timeout=900 if th else 400, bound="value: str <= 2 ASCII chars / any int / bool / None / literal zone / list; ENUM [a0,a1] with a0 in {ab,AB,zz,'',a}, a1 in {Ab,zz} by symbolic index (unique / ambiguous / no match all reachable); fix symbolic", functions=rf))
    for ck in (1, 2):
        obs.append(xh_ob(PROP, f"R.numeric-texts[{names[ck]}]", _mk_value_pool(ck), timeout=300, bound=f"{len(NUM_TEXTS)} numeric notations chosen by symbolic index (sign, leading zeros, underscores, padding, exponent, overflow to inf, nan/inf/infinity spellings, hex, non-ASCII digits, 30-digit int) x fix", functions=rf))
    for k0 in range(3):
        obs.append(xh_ob(PROP, f"R.tree-walk-frame-and-idempotence[top-level-key={KEYS[k0]}]", _mk_tree(k0), timeout=1500 if th else 600, bound="document of 4 assignments at 4 depths (top level, block child, nested block child, section child) with keys chosen by symbolic index from {STATUS, COUNT, OTHER}, values from {on,x} x {7,oFF}, optional literal zone at each site, fix x schema present", functions=["core.repair.repair", "_apply_schema_repairs", "_repair_ast_node"] + rf))
    obs.append(xh_ob(PROP, "R.validate-tool-copies-log", R_tool_log, timeout=300, bound="0..3 repair entries x fix", functions=["mcp.validate.ValidateTool.execute (STAGE 4)"], stubs=["collaborators stubbed; repair returns a symbolic number of entries"]))
    return select(obs, tier)
