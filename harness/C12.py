"""C12 - every compiled grammar is well-formed GBNF.

Oracle: vf/gbnf.py, a transcription of llama.cpp's grammar parser, used as a predicate (parses; root defined; every
referenced rule defined; no rule defined twice; no empty alternative).
XH: the real _escape_literal / _compile_enum / _compile_const / _compile_regex / _sanitize_rule_name run on symbolic
text; compile_schema / compile_gbnf_from_meta run on schemas assembled by symbolic index from pools covering every
sanitisation case and constraint kind.
"""
from __future__ import annotations

from vf.ob import HELD, SKIP, VIOL, kf_active, select, xh_ob

PROP = "C12"
META = {
    "explanation": "CrossHair symbolic execution of the real GBNF compiler pieces; output judged by a reference GBNF reader",
    "assumptions": ["reference reader transcribed from llama.cpp (rule names [a-zA-Z0-9-]+, escapes \\\\ \\\" \\[ \\] \\n \\r \\t \\x \\u \\U)",
                    "whole-grammar checks tolerate '_' in rule names (listed finding rule-name-charset), everything else is strict"],
}


def _mk_literal(n):
    def G_literal(v: str) -> int:
        """
        pre: len(v) <= N
        post: _ != 0
        """
        # _escape_literal then the reference literal scanner is the identity; never an early terminator
        from octave_mcp.core.gbnf_compiler import GBNFCompiler
        from vf import gbnf

        text = '"' + GBNFCompiler()._escape_literal(v) + '"'
        r = gbnf.Reader(text, True)
        try:
            seq, pos = r.sequence(0, "x", False)
        except gbnf.GBNFError:
            return VIOL
        if pos != len(text) or len(seq) != 1 or seq[0][0] != "lit":
            return VIOL
        return HELD if seq[0][1] == v else VIOL

    G_literal.__doc__ = G_literal.__doc__.replace("N", str(n))
    return G_literal


def _mk_enum_const(n):
    def G_enum_const(a: str, n: int, kind: int) -> int:
        """
        pre: len(a) <= N and 0 <= kind <= 1
        post: _ != 0
        """
        b = 'B"'

        from octave_mcp.core import constraints as c
        from octave_mcp.core import emitter as em
        from octave_mcp.core.gbnf_compiler import GBNFCompiler

        comp = GBNFCompiler()
        # the fragment is exactly the parenthesised '|'-list of quoted _escape_literal images of the values' canonical emission (each of which
        # G.escape-literal-identity shows to be one well-formed literal denoting the value)
        if kind == 0:
            frag = comp._compile_enum(c.EnumConstraint([a, b]))
            want = '("' + comp._escape_literal(em.emit_value(a)) + '" | "' + comp._escape_literal(em.emit_value(b)) + '")'
        elif kind == 1:
            frag = comp._compile_const(c.ConstConstraint(a))
            want = '"' + comp._escape_literal(em.emit_value(a)) + '"'
        else:
            frag = comp._compile_const(c.ConstConstraint(n))
            want = '"' + str(n) + '"'
        return HELD if frag == want else VIOL

    G_enum_const.__doc__ = G_enum_const.__doc__.replace("N", str(n))
    return G_enum_const


REGEX_ALPHABET = list('a[](|+.^$\\{,-"d')


def _mk_regex(n, first=None):
    def G_regex(i0: int, i1: int, i2: int, i3: int, ln: int) -> int:
        """
        pre: 0 <= i0 <= AMAX and 0 <= i1 <= AMAX and 0 <= i2 <= AMAX and 0 <= i3 <= AMAX and 0 <= ln <= N
        post: _ != 0
        """
        # whatever pattern the schema reader accepts, the compiled fragment is well-formed and references no rule
        import re

        from crosshair.tracers import NoTracing
        from octave_mcp.core import constraints as c
        from octave_mcp.core.gbnf_compiler import GBNFCompiler
        from vf import gbnf

        p = "".join(REGEX_ALPHABET[i] for i in (i0, i1, i2, i3)[:ln])
        with NoTracing():
            try:
                rc = c.RegexConstraint(p)
            except ValueError:
                return SKIP  # not a pattern the schema reader accepts
            frag = GBNFCompiler()._compile_regex(rc)
            return VIOL if gbnf.fragment_problems(frag) else HELD

    G_regex.__doc__ = G_regex.__doc__.replace("AMAX", str(len(REGEX_ALPHABET) - 1)).replace("N", str(n))
    if first is not None:
        G_regex.__doc__ = G_regex.__doc__.replace("pre: 0 <= i0 <= " + str(len(REGEX_ALPHABET) - 1), f"pre: {first[0]} <= i0 <= {first[1]}")
    return G_regex


def G_regex_multiclass(c1: str, p1: str, e1: bool, c2: str, p2: str, e2: bool, q: int, anchors: bool) -> int:
    """
    pre: len(c1) == 1 and len(p1) == 1 and len(c2) == 1 and len(p2) == 1 and q == 2 and anchors and not e1 and e2 and c1 == "A" and c2 == "0"
    post: _ != 0
    """
    # patterns made of two character classes, each holding a plain character and optionally an escaped punctuation
    # character (always valid for Python's re): the compiled fragment must be well-formed GBNF
    from octave_mcp.core import constraints as c
    from octave_mcp.core.gbnf_compiler import GBNFCompiler
    from vf import gbnf

    for ch in (c1, c2):
        o = ord(ch)
        if ch in "]\\[^-" or o < 32 or o > 126:
            return SKIP
    for ch in (p1, p2):
        o = ord(ch)
        if not (33 <= o <= 47 or 58 <= o <= 64 or 91 <= o <= 96 or 123 <= o <= 126):
            return SKIP  # escaped ASCII punctuation only (an escaped letter may be an invalid or special regex escape)
    p = "[" + c1 + ("\\" + p1 if e1 else "") + "][" + c2 + ("\\" + p2 if e2 else "") + "]" + ["", "+", "*", "?"][q]
    if anchors:
        p = "^" + p + "$"
    rc = object.__new__(c.RegexConstraint)  # skip re.compile (C code); the compiler reads only .pattern
    rc.pattern = p
    rc._compiled = None
    frag = GBNFCompiler()._compile_regex(rc)
    return VIOL if gbnf.fragment_problems(frag) else HELD


def G_regex_multiclass_replay(c1: str, p1: str, e1: bool, c2: str, p2: str, e2: bool, q: int, anchors: bool) -> int:
    from octave_mcp.core import constraints as c
    from octave_mcp.core.gbnf_compiler import GBNFCompiler
    from vf import gbnf

    p = "[" + c1 + ("\\" + p1 if e1 else "") + "][" + c2 + ("\\" + p2 if e2 else "") + "]" + ["", "+", "*", "?"][q]
    if anchors:
        p = "^" + p + "$"
    try:
        rc = c.RegexConstraint(p)
    except ValueError:
        return HELD
    return VIOL if gbnf.fragment_problems(GBNFCompiler()._compile_regex(rc)) else HELD


def _mk_sanitize(n):
    def G_sanitize(name: str) -> int:
        """
        pre: len(name) <= N and all(ord(ch) < 256 for ch in name)
        post: _ != 0
        """
        # sanitised names are non-empty, start with a letter and use [a-z0-9_] only ('_' itself: listed finding)
        from octave_mcp.core.gbnf_compiler import GBNFCompiler

        out = GBNFCompiler()._sanitize_rule_name(name)
        if len(out) == 0:
            return VIOL
        for ch in out:
            o = ord(ch)
            if not (97 <= o <= 122 or 48 <= o <= 57 or o == 95 or o == 45):
                return VIOL
        if 48 <= ord(out[0]) <= 57 or out[0] == "-":
            return VIOL
        if "_" in out and not kf_active(PROP, "rule-name-charset"):
            return VIOL
        return HELD

    G_sanitize.__doc__ = G_sanitize.__doc__.replace("N", str(n))
    return G_sanitize


NAMES = ["STATUS", "MY_FIELD", "A.B", "A_DOT_B", "a", "A", "WS", "FIELD", "CONTENT", "DOCUMENT", "ROOT", "X-Y", "X_Y", "P/Q", "1ST", "ÉTÉ", "_", "WS_2", "ws-2", 'Q"T', "B\\S"]
CHAINS = ["REQ", "OPT", "CONST[A]", 'CONST["q\\"r"]', "CONST[7]", "CONST[true]", "ENUM[A,AB,B]", "ENUM[]", "TYPE[STRING]", "TYPE[NUMBER]", "TYPE[BOOLEAN]", "TYPE[LIST]", "TYPE[BOGUS]",
          'REGEX["^[a-z]+$"]', 'REGEX["^abc$"]', 'REGEX["(ab|cd)+"]', 'REGEX["[a-z]{2,3}"]', 'REGEX["a.c"]', 'REGEX["^\\d+$"]', 'REGEX["[a\\-z]+"]', 'REGEX["x|"]', 'REGEX[".*"]', 'REGEX["[^\\"]+"]',
          "RANGE[1,5]", "MAX_LENGTH[2]", "MIN_LENGTH[0]", "MIN_LENGTH[1]", "DATE", "ISO8601", "DIR", "APPEND_ONLY", "REQ∧ENUM[A,B]∧TYPE[STRING]", "", "TYPE[LITERAL]", "LANG[python]"]
SCHEMA_NAMES = ["S", "my schema", 'A"B', "L1\nL2", "ws", "É"]


def _schema(names, chains, sname):
    from octave_mcp.core.constraints import ConstraintChain
    from octave_mcp.core.holographic import HolographicPattern
    from octave_mcp.core.schema_extractor import FieldDefinition, SchemaDefinition

    s = SchemaDefinition(name=sname, version="1")
    for nm, ch in zip(names, chains):
        chain = ConstraintChain.parse(ch) if ch else None
        s.fields[nm] = FieldDefinition(name=nm, pattern=HolographicPattern(example=None, constraints=chain, target=None))
    return s


def _assemble(ns, cs, sname, envelope):
    from crosshair.tracers import NoTracing
    from octave_mcp.core.gbnf_compiler import GBNFCompiler
    from vf import gbnf

    if len(set(ns)) != len(ns):
        return SKIP  # a schema is a dict: equal names cannot occur
    with NoTracing():  # every input is concrete here (chosen by the solver through the indices)
        g = GBNFCompiler().compile_schema(_schema(ns, cs, sname), include_envelope=envelope)
        probs = gbnf.problems(g, strict_names=not kf_active(PROP, "rule-name-charset"))
    return VIOL if probs else HELD


def G_asm_names(n0: int, s: int, envelope: bool) -> int:
    """
    pre: 0 <= n0 <= NMAX and 0 <= s <= 5
    post: _ != 0
    """
    return _assemble([NAMES[n0]], ["REQ"], SCHEMA_NAMES[s], envelope)


def G_asm_chains(c0: int, envelope: bool) -> int:
    """
    pre: 0 <= c0 <= CMAX
    post: _ != 0
    """
    return _assemble(["X"], [CHAINS[c0]], "S", envelope)


def G_asm_pairs(n0: int, n1: int, c0: int, envelope: bool) -> int:
    """
    pre: 0 <= n0 <= NMAX and 0 <= n1 <= NMAX and 0 <= c0 <= 2
    post: _ != 0
    """
    return _assemble([NAMES[n0], NAMES[n1]], [CHAINS[c0], "OPT"], "S", envelope)


def G_asm_triples(n0: int, n1: int, n2: int) -> int:
    """
    pre: 0 <= n0 <= 12 and 0 <= n1 <= 12 and 0 <= n2 <= 18 and n2 >= 9
    post: _ != 0
    """
    return _assemble([NAMES[n0], NAMES[n1], NAMES[n2]], ["REQ", "OPT", "DATE"], "ws", True)


for _f in (G_asm_names, G_asm_chains, G_asm_pairs, G_asm_triples):
    _f.__doc__ = _f.__doc__.replace("NMAX", str(len(NAMES) - 1)).replace("CMAX", str(len(CHAINS) - 1))


def _fix(fn, **consts):
    import types

    f = types.FunctionType(fn.__code__, {**fn.__globals__}, fn.__name__, None, fn.__closure__)
    f.__doc__ = fn.__doc__
    for k, v in consts.items():
        f.__doc__ = f.__doc__.replace("pre: ", f"pre: {k} == {v} and ", 1)
    f.__annotations__ = dict(fn.__annotations__)
    return f


CONTRACTS = [
    "FIELD[NAME]::REQ∧TYPE[STRING]",
    "FIELD[N]::RANGE[1,5]",
    'FIELD["a b"]::REQ',
    "FIELD[STATUS]::ENUM[A,B]∧REQ",
    'FIELD[Y]::CONST["q\\"r"]',
    'FIELD[P]::REGEX["^abc$"]',
    "FIELD[WS]::DATE",
    "FIELD[A.B]::OPT",
    "FIELD[A_DOT_B]::OPT",
    "FIELD[BAD]::NOPE[1]",
    "FIELD[E]::",
]


def G_contract(i0: int, i1: int, i2: int, quoted_type: bool) -> int:
    """
    pre: 0 <= i0 <= 10 and 0 <= i1 <= 10 and 0 <= i2 <= 10
    post: _ != 0
    """
    # META.CONTRACT route: the real reader produces the CONTRACT list (tokens), compile_gbnf_from_meta rebuilds the specs
    from octave_mcp.core.gbnf_compiler import compile_gbnf_from_meta
    from octave_mcp.core.parser import parse
    from vf import gbnf

    from crosshair.tracers import NoTracing

    specs = ",".join(CONTRACTS[i] for i in (i0, i1, i2))
    typ = '"T \\"x\\""' if quoted_type else "T"
    with NoTracing():  # concrete from here on
        doc = parse("===D===\nMETA:\n  TYPE::" + typ + "\n  CONTRACT::[" + specs + "]\n===END===\n")
        g = compile_gbnf_from_meta(doc.meta)
        probs = gbnf.problems(g, strict_names=not kf_active(PROP, "rule-name-charset"))
    return VIOL if probs else HELD


def charset_witness_ob():
    def run(tier):
        from octave_mcp.core.gbnf_compiler import GBNFCompiler
        from vf import gbnf

        res = {"engine": "xh", "verdict": "confirmed", "paths": 1, "queries": 0, "solver_s": 0.0, "known_findings": [], "replays": [], "reach_witnessed": True}
        g = GBNFCompiler().compile_schema(_schema(["MY_FIELD"], ["REQ"], "S"))
        strict = gbnf.problems(g, True)
        relaxed = gbnf.problems(g, False)
        if kf_active(PROP, "rule-name-charset"):
            if strict and not relaxed:
                res["known_findings"].append("rule-name-charset: field MY_FIELD compiles to rule 'my_field'; llama.cpp rule names are [a-zA-Z0-9-]+ so the grammar does not parse ('_' is produced for '_', '.', '/', '-' and non-ASCII characters; pinned by tests/unit/test_gbnf_compiler.py)")
            elif relaxed:
                res["verdict"] = "inconclusive"
                res["detail"] = "witness grammar has other problems: " + "; ".join(relaxed)
        return res

    return {"id": "W.rule-name-charset-witness", "engine": "xh", "timeout": 60, "bound": "concrete witness of the listed finding", "functions": ["GBNFCompiler._sanitize_rule_name", "compile_schema"], "run": run}


def obligations(tier):
    th = tier == "thorough"
    cf = "core.gbnf_compiler.GBNFCompiler."
    af = [cf + "compile_schema", cf + "compile_chain", cf + "compile_constraint", cf + "_sanitize_rule_name"]
    pool = "solver-indexed pool (concrete execution per choice)"
    obs = [
        xh_ob(PROP, "G.escape-literal-identity", _mk_literal(4 if th else 3), timeout=900 if th else 300, bound=f"all strings <= {4 if th else 3} chars, any character", functions=[cf + "_escape_literal"]),
        xh_ob(PROP, "G.enum-const-fragments", _mk_enum_const(3 if th else 2), timeout=1500 if th else 400, bound=f"ENUM [a, 'B\"'] / CONST a with symbolic a <= {3 if th else 2} chars (any character); numeric constants through the chain pool", functions=[cf + "_compile_enum", cf + "_compile_const"]),
        xh_ob(PROP, "G.sanitize-rule-name", _mk_sanitize(1), timeout=600, bound="all field names of <= 1 character below U+0100; longer and other names through the assembly pools", functions=[cf + "_sanitize_rule_name"]),
        charset_witness_ob(),
        xh_ob(PROP, "G.contract-route", G_contract, timeout=1500, bound=f"{pool}: CONTRACT lists of 3 entries from {len(CONTRACTS)} specs (quoted names, structural names, colliding names, bad constraints, empty chain) x plain/quoted TYPE", functions=["core.gbnf_compiler.compile_gbnf_from_meta", "_extract_contract_field_specs", "_reconstruct_field_specs_from_tokens", "parse_contract_field", cf + "compile_schema"]),
        xh_ob(PROP, "G.assembly[names]", G_asm_names, timeout=600, bound=f"{pool}: {len(NAMES)} field names x {len(SCHEMA_NAMES)} schema names x envelope", functions=af),
        xh_ob(PROP, "G.assembly[chains]", G_asm_chains, timeout=600, bound=f"{pool}: {len(CHAINS)} constraint chains x envelope", functions=af),
        xh_ob(PROP, "G.assembly[name-pairs]", G_asm_pairs, timeout=1200, bound=f"{pool}: all ordered pairs of {len(NAMES)} names x 3 chains x envelope", functions=af),
        xh_ob(PROP, "G.assembly[name-triples]", G_asm_triples, timeout=1800, bound=f"{pool}: triples from the collision-prone names, schema name 'ws', envelope", functions=af),
    ]
    obs.append(xh_ob(PROP, "G.regex-two-classes-with-escapes", G_regex_multiclass, replay=G_regex_multiclass_replay, timeout=1500, bound="patterns ^[A][0\\p]*$ for every escaped ASCII punctuation character p (symbolic)", functions=[cf + "_compile_regex"], stubs=["RegexConstraint built without re.compile (C code); replay uses the real constructor"]))
    n = len(REGEX_ALPHABET)
    ln = 4 if th else 3
    for lo in range(0, n, 5):
        hi = min(lo + 4, n - 1)
        obs.append(xh_ob(PROP, f"G.regex-fragments[first={lo}..{hi}]", _mk_regex(ln, (lo, hi)), timeout=3000 if th else 900, bound=f"{pool}: all pattern texts of <= {ln} characters over the {n}-character regex-significant alphabet {"".join(REGEX_ALPHABET)!r} that re.compile accepts", functions=[cf + "_compile_regex"]))
    return select(obs, tier)
