"""C02 - canonicalisation preserves document content exactly (oracle independent of the parser).

The content model is a hand-built AST (harness/docmodel.py).  Its canonical text is tokenised by the real tokenizer
(concretely); one content site's token then carries a symbolic value; the real Parser runs under CrossHair and the result
is compared field by field with the model in which that site holds the symbolic value.
"""
from __future__ import annotations

from harness import docmodel as dm
from vf.ob import HELD, SKIP, VIOL, kf_active, select, xh_ob

PROP = "C02"
META = {
    "explanation": "CrossHair symbolic execution of the real Parser on the real tokenizer's token layout with one symbolic content site per path; field-by-field comparison with the hand-built content model",
    "assumptions": [
        "one site symbolic per path (|v| <= 3), the others hold concrete placeholders: the product over sites is covered under the independence argument 'the parser's decisions at a site depend on that site's token and on key equality with siblings' (stated, not proved)",
        "token substitution justified by the lexical obligations of C04 (value text <-> token)",
        "IDENTIFIER token text over ASCII letters and '_' (the parser inspects identifier text only for '<', '>', META, constructor names, single-letter-ness)",
    ],
}


def _mk_site(shape, kind, n, emit_too, lo=0, hi=40):
    role = None
    tk = kind
    if kind.startswith("IDENTIFIER-"):
        tk, role = "IDENTIFIER", kind.split("-")[1]

    def S_site(si: int, v: str) -> int:
        """
        pre: LO <= si <= HI and len(v) <= N
        post: _ != 0
        """
        return dm.run_site(shape, tk, si, v, check_emit=emit_too, role_filter=role)

    def S_key_site(si: int, ki: int) -> int:
        """
        pre: LO <= si <= HI and 0 <= ki <= 7
        post: _ != 0
        """
        # keys are hashed by the parser's duplicate tracking (a symbolic key would only be enumerated): solver-indexed pool
        from crosshair.core import realize

        return dm.run_site(shape, tk, si, dm.KEY_POOL[realize(ki)], check_emit=emit_too, role_filter=role)

    S_site.__doc__ = S_site.__doc__.replace("N", str(n)).replace("LO", str(lo)).replace("HI", str(hi))
    S_key_site.__doc__ = S_key_site.__doc__.replace("LO", str(lo)).replace("HI", str(hi))
    return S_key_site if role == "key" else S_site


def M_models_read_back(which: int) -> int:
    """
    pre: 0 <= which <= 1
    post: _ != 0
    """
    # the canonical text of each content model, read by the real reader, is the model (every value kind, every position)
    from crosshair.core import realize
    from crosshair.tracers import NoTracing
    from octave_mcp.core.parser import parse

    which = realize(which)
    with NoTracing():
        shape = list(dm.SHAPES)[which]
        model, text, toks, sites, fm, repairs = dm.canonical_tokens(shape)
        doc = parse(text)
        if not dm.same_doc(doc, model) or doc.raw_frontmatter != model.raw_frontmatter:
            return VIOL
        return HELD


def N_number_values_exact(k: int, d: int, neg: bool, form: int) -> int:
    """
    pre: 0 <= k <= 80 and -2 <= d <= 2 and 0 <= form <= 2
    post: _ != 0
    """
    # the NUMBER branch sliced from the real tokenize turns a decimal lexeme into exactly the integer it spells (any
    # magnitude: values around every power of two up to 2^80, where a float detour would round) and keeps int vs float;
    # the whole real reader agrees on the same lexeme in assignment position
    from crosshair.core import realize
    from crosshair.tracers import NoTracing
    from vf.slices import tokenize_number_branch

    from vf.ob import pick, pickb

    k, d, neg, form = pick(k, 81), pick(d, 5, -2), pickb(neg), pick(form, 3)
    with NoTracing():
        n = (2**k + d) * (-1 if neg else 1)
        text = str(n) if form == 0 else (str(n) + ".0" if form == 1 else str(n) + "e0")
        value, raw = tokenize_number_branch()(text)
        want = n if form == 0 else float(text)
        if type(value) is not type(want) or value != want or raw != text:
            return VIOL
        from octave_mcp.core.emitter import emit
        from octave_mcp.core.parser import parse

        doc = parse("K::" + text + "\n")
        got = doc.sections[0].value
        if type(got) is not type(want) or got != want:
            return VIOL
        if form == 0 and emit(doc) != "===INFERRED===\nK::" + text + "\n===END===\n":
            return VIOL
        return HELD


def obligations(tier, prop=PROP, emit_too=False):
    th = tier == "thorough"
    pf = ["parser.Parser.parse_document", "parse_meta_block", "parse_section", "parse_section_marker", "parse_list", "parse_list_item", "parse_value", "parse_flow_expression", "collect_trailing_comment", "lexer.tokenize (token layout, concrete)", "emitter.emit (canonical text of the model, concrete)"]
    obs = [xh_ob(prop, "M.content-models-read-back", M_models_read_back, timeout=300, bound="2 content models (rich: frontmatter, grammar sentinel, envelope, META with nested level, separator, every value kind at top level / block child / section child / META / list item / inline-map value, nested blocks with target, section markers with annotation and suffix id, duplicate keys, leading / trailing / orphan / document-trailing comments; deep: 3 block levels, empty block, sections with blocks, named section) through the complete real reader", functions=pf)]
    obs.append(xh_ob(prop, "N.number-lexemes-keep-their-exact-value", N_number_values_exact, timeout=600, bound="decimal lexemes of +-(2^k + d), k = 0..80, d = -2..2, as integer text, with '.0' and with 'e0' (solver-indexed boundary values: one concrete run of the sliced NUMBER branch and of the real reader per choice)", functions=["lexer.tokenize (NUMBER branch, sliced from the live source)", "parser.parse", "emitter.emit_value"]))
    for shape in dm.SHAPES:
        for kind, n in (("STRING", 3), ("IDENTIFIER-value", 3), ("IDENTIFIER-key", 0), ("COMMENT", 2)):
            if shape == "deep" and not kind.startswith("IDENTIFIER"):
                continue
            if shape == "rich" and kind == "IDENTIFIER-value":
                n = 2  # 21 sites
            if emit_too and n > 0:
                n = n - 1  # comparing two emitted texts with a symbolic site costs about a character
            nsites = dm.count_sites(shape, kind)
            per = 3 if kind in ("STRING", "COMMENT") else (5 if kind.endswith("value") else 9)
            for lo in range(0, nsites, per):
                hi = min(lo + per, nsites) - 1
                obs.append(xh_ob(prop, f"S.symbolic-site[{shape},{kind},sites {lo}-{hi}]", _mk_site(shape, kind, n + (1 if th else 0), emit_too, lo, hi), timeout=3000 if th else 1200,
                                 bound=(f"shape '{shape}': key sites {lo}..{hi} (of {nsites}) in turn carry one of {len(dm.KEY_POOL)} keys chosen by the solver (fresh, one letter, duplicate of a sibling, parent's name, META field name, constructor name ...)" if kind.endswith("key") else f"shape '{shape}': {kind} token sites {lo}..{hi} (of {nsites}) of the canonical token layout in turn carry a symbolic value |v| <= {n + (1 if th else 0)}") + (" and the re-emitted text equals the model's canonical text" if emit_too else ""), functions=pf))
    return select(obs, tier)
