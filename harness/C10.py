"""C10 - validation status is always present and never overstated (tool layer).

XH: the real ValidateTool.execute / WriteTool.execute / EjectTool.execute / CompileGrammarTool.execute bodies run under
CrossHair with every flag symbolic and their collaborators replaced by stubs whose outcomes are symbolic; the property's
clauses are asserted literally on the returned envelope.  A second group runs the real schema-name resolution.
"""
from __future__ import annotations

from harness.toolworld import STATUSES, World, drive, install_validate_stubs
from vf.ob import HELD, SKIP, VIOL, select, xh_ob

PROP = "C10"
META = {
    "explanation": "CrossHair symbolic execution of the real tool execute() bodies over all flag / collaborator-outcome combinations",
    "assumptions": ["collaborators (parser, loader, validator, repair, emitter, compiler) are stubs with symbolic outcomes; their own behaviour is C01-C13"],
}

PROFILES = ["STRICT", "STANDARD", "LENIENT", "ULTRA", "strict", "BOGUS", None]


def _validate_core(profile_i, fix, diff_only, compact, grammar_hint, debug, parse_outcome, builtin, load_outcome, n1, n2, emit_raises, compile_raises, zones, input_mode, check):
    from octave_mcp.mcp import validate as mod  # noqa: F401

    w = World()
    mod = install_validate_stubs(w, parse_outcome=parse_outcome, n_parse_warnings=1, builtin=builtin, load_outcome=load_outcome, n_errors_first=n1, n_errors_after_fix=n2, emit_raises=emit_raises, compile_raises=compile_raises, zones=zones)
    kwargs = {"schema": "ANY", "fix": fix, "diff_only": diff_only, "compact": compact, "grammar_hint": grammar_hint, "debug_grammar": debug}
    prof = PROFILES[profile_i]
    if prof is not None:
        kwargs["profile"] = prof
    if input_mode in (0, 1):
        kwargs["content"] = "X"
    if input_mode == 1:
        kwargs["file_path"] = "/nonexistent/x.oct.md"
    r = drive(mod.ValidateTool().execute(**kwargs))
    return check(w, r, prof, kwargs)


def _mk_V_status(profile_i):
  def V_status(fix: bool, diff_only: bool, compact: bool, grammar_hint: bool, debug: bool, parse_outcome: int, builtin: bool, load_outcome: int, n1: int, n2: int, emit_raises: bool, compile_raises: bool, zones: bool, input_mode: int) -> int:
    """
    pre: 0 <= parse_outcome <= 3 and 0 <= load_outcome <= 3 and 0 <= n1 <= 2 and 0 <= n2 <= 2 and 0 <= input_mode <= 2
    post: _ != 0
    """

    def check(w, r, prof, kwargs):
        if not isinstance(r, dict):
            return VIOL
        st = r.get("validation_status")
        if st not in STATUSES:
            return VIOL
        if bool(r.get("valid", False)) != (st == "VALIDATED"):
            return VIOL
        eff = (prof or "STANDARD").upper()
        has_schema = builtin or load_outcome == 1
        parsed = input_mode == 0 and eff in ("STRICT", "STANDARD", "LENIENT", "ULTRA") and parse_outcome == 0
        if st == "VALIDATED":
            if not (parsed and has_schema and w.schema_applied):
                return VIOL
            if n1 > 0 and eff not in ("LENIENT", "ULTRA"):
                return VIOL
        if not parsed or not has_schema:
            if st != "UNVALIDATED":
                return VIOL
        if st == "INVALID":
            n_listed = len(r.get("validation_errors", [])) + int(r.get("validation_error_count", 0))
            if n_listed < 1 or not r.get("schema_name") or not r.get("schema_version"):
                return VIOL
            if eff not in ("STRICT", "STANDARD"):
                return VIOL
        if parsed and has_schema and n1 > 0 and eff in ("STRICT", "STANDARD") and st != "INVALID":
            return VIOL
        if "status" not in r:
            return VIOL
        return HELD

    return _validate_core(profile_i, fix, diff_only, compact, grammar_hint, debug, parse_outcome, builtin, load_outcome, n1, n2, emit_raises, compile_raises, zones, input_mode, check)

  return V_status


# --- write tool ---------------------------------------------------------------------------------------------------
def _install_write_stubs(w, *, tok_raises, parse_outcome, builtin, load_outcome, n1, n2, emit_raises, compile_raises, file_exists, hermetic_raises):
    from types import SimpleNamespace

    from harness.toolworld import Err, make_doc
    from octave_mcp.core.lexer import LexerError
    from octave_mcp.core.parser import ParserError
    from octave_mcp.mcp import write as mod

    def tokenize(content, lenient=False):
        if tok_raises:
            raise LexerError("Unexpected character", 1, 1, "E005")
        return [], []

    def _parse(content):
        if parse_outcome == 1:
            raise LexerError("x", 1, 1, "E005")
        if parse_outcome == 2:
            raise ParserError("bad", None, "E001")
        if parse_outcome == 3:
            raise RuntimeError("boom")
        w.parsed_doc = make_doc()
        return w.parsed_doc

    def parse_with_warnings(content):
        return _parse(content), []

    def get_builtin_schema(name):
        return {"name": "BUILTIN", "version": "9"} if builtin else None

    def _definition():
        if load_outcome == 0:
            return None
        if load_outcome == 3:
            raise OSError("unreadable")
        fields = {"F": SimpleNamespace(pattern=None)} if load_outcome == 1 else {}
        return SimpleNamespace(name="FILE", version="2", fields=fields, frontmatter={}, policy=None)

    class Validator:
        def __init__(self, schema=None):
            self.schema = schema
            self.routing_log = SimpleNamespace(to_dict=lambda: [])

        def validate(self, doc, strict=False, section_schemas=None):
            w.validate_calls += 1
            if self.schema is not None or section_schemas:
                w.schema_applied = True
            n = n1 if w.repair_calls == 0 else n2
            return [Err("E003", "S.F%d" % i) for i in range(n)]

    def repair(doc, errors, fix=False, schema=None):
        w.repair_calls += 1
        return doc, SimpleNamespace(repairs=[])

    def emit(doc):
        if emit_raises:
            raise ValueError("emit")
        w.emitted_docs.append(doc)
        return "CANON"

    class GBNFCompiler:
        def compile_schema(self, sd, include_envelope=True):
            if compile_raises:
                raise KeyError("x")
            return "root ::= x"

    def resolve_hermetic_standard(name):
        if hermetic_raises:
            raise ValueError("no cache")
        return "/cache/x.oct.md"

    class FakePath:
        def __init__(self, p):
            self.p = p
            self.parent = self

        def exists(self):
            return file_exists

        def is_symlink(self):
            return False

        def mkdir(self, parents=False, exist_ok=False):
            w.fs_mutations = getattr(w, "fs_mutations", 0) + 1

    mod.tokenize = tokenize
    mod.parse = _parse
    mod.parse_with_warnings = parse_with_warnings
    mod.get_builtin_schema = get_builtin_schema
    mod.load_schema_by_name = lambda name: _definition()
    mod.load_schema = lambda path: _definition()
    mod.resolve_hermetic_standard = resolve_hermetic_standard
    mod.Validator = Validator
    mod.repair = repair
    mod.emit = emit
    mod.GBNFCompiler = GBNFCompiler
    mod.extract_structural_metrics = lambda doc: None
    mod._count_literal_zones = lambda doc: []
    mod.Path = FakePath
    mod.WriteTool._validate_path = lambda self, p: (True, None)
    mod.WriteTool._generate_diff = lambda self, *a, **k: "d"
    mod.WriteTool._build_unified_diff = lambda self, a, b: "u"
    mod.WriteTool._compute_hash = lambda self, c: "H"
    return mod


SCHEMAS = ["ANY", "frozen@sha256:" + "0" * 64, "latest", "", None]


def W_status(schema_i: int, lenient: bool, grammar_hint: bool, debug: bool, salvage: bool, tok_raises: bool, parse_outcome: int, builtin: bool, load_outcome: int, n1: int, n2: int, emit_raises: bool, compile_raises: bool, hermetic_raises: bool, mode: int) -> int:
    """
    pre: 0 <= schema_i <= 4 and 0 <= parse_outcome <= 3 and 0 <= load_outcome <= 3 and 0 <= n1 <= 2 and 0 <= n2 <= 2 and 0 <= mode <= 2
    post: _ != 0
    """
    # corrections_only=True: the write block itself is C16/C17; here the status logic of every path up to it
    w = World()
    mod = _install_write_stubs(w, tok_raises=tok_raises, parse_outcome=parse_outcome, builtin=builtin, load_outcome=load_outcome, n1=n1, n2=n2, emit_raises=emit_raises, compile_raises=compile_raises, file_exists=False, hermetic_raises=hermetic_raises)
    kwargs = {"target_path": "/t/x.oct.md", "lenient": lenient, "grammar_hint": grammar_hint, "debug_grammar": debug, "corrections_only": True}
    if salvage:
        kwargs["parse_error_policy"] = "salvage"
    sch = SCHEMAS[schema_i]
    if sch is not None:
        kwargs["schema"] = sch
    if mode in (0, 2):
        kwargs["content"] = "K::v"
    if mode == 2:
        kwargs["changes"] = {"K": 1}
    if salvage and lenient and parse_outcome != 0:
        return SKIP  # _localized_salvage re-enters the real parser: covered with real collaborators in C20
    r = drive(mod.WriteTool().execute(**kwargs))
    if not isinstance(r, dict) or "status" not in r:
        return VIOL
    st = r.get("validation_status")
    if st not in STATUSES:
        return VIOL
    has_schema = bool(sch) and (builtin or load_outcome == 1) and not (sch != "ANY" and hermetic_raises and not builtin)
    reached = mode == 0 and not (not lenient and tok_raises) and parse_outcome == 0 and not emit_raises
    if st == "VALIDATED":
        if not (reached and has_schema and w.schema_applied):
            return VIOL
        final_n = n1 if w.repair_calls == 0 else n2
        if final_n > 0:
            return VIOL
        if r.get("status") != "success":
            return VIOL
    if (not reached or not has_schema) and st != "UNVALIDATED":
        return VIOL
    if st == "INVALID":
        if len(r.get("validation_errors", [])) < 1 or not r.get("schema_name") or not r.get("schema_version"):
            return VIOL
    if r.get("status") == "error" and st != "UNVALIDATED":
        return VIOL
    return HELD


# --- schema name resolution (real loader) ---------------------------------------------------------------------------
def S_unknown_names(name: str) -> int:
    """
    pre: len(name) <= 4
    post: _ != 0
    """
    # a name that is malformed (pattern) can never produce a schema: load_schema_by_name returns None before touching disk
    from octave_mcp.schemas import loader

    touched = []

    class P:
        def __init__(self, *a):
            touched.append(a)

        def __truediv__(self, o):
            touched.append(o)
            return self

        def exists(self):
            return False

    if loader.SCHEMA_NAME_PATTERN.match(name):
        return SKIP
    real_paths = loader.get_schema_search_paths
    loader.get_schema_search_paths = lambda: [P("x")]
    try:
        got = loader.load_schema_by_name(name)
    finally:
        loader.get_schema_search_paths = real_paths
    if got is not None or len(touched) > 1:
        return VIOL
    return HELD


# --- eject / compile_grammar ------------------------------------------------------------------------------------------
def E_status(fmt_i: int, mode_i: int, has_content: bool, parse_raises: bool, has_schema_arg: bool, builtin: bool) -> int:
    """
    pre: 0 <= fmt_i <= 5 and 0 <= mode_i <= 4
    post: _ != 0
    """
    from types import SimpleNamespace

    from harness.toolworld import make_doc
    from octave_mcp.core.parser import ParserError
    from octave_mcp.mcp import eject as mod

    def parse(content):
        if parse_raises:
            raise ParserError("bad", None, "E001")
        return make_doc()

    mod.parse = parse
    if hasattr(mod, "get_builtin_schema"):
        mod.get_builtin_schema = lambda n: ({"name": "B", "version": "1"} if builtin else None)
    fmt = ["octave", "json", "yaml", "markdown", "gbnf", "bogus"][fmt_i]
    mode = ["canonical", "authoring", "executive", "developer", "bogus"][mode_i]
    kwargs = {"schema": "ANY" if has_schema_arg else "", "format": fmt, "mode": mode}
    if has_content:
        kwargs["content"] = "K::v"
    try:
        r = drive(mod.EjectTool().execute(**kwargs))
    except ValueError:
        return SKIP  # enum-typed argument outside its schema: not a well-typed call
    if not isinstance(r, dict):
        return VIOL
    st = r.get("validation_status")
    if st not in STATUSES:
        return VIOL
    if st == "VALIDATED":
        return VIOL  # eject never runs a validator, so it may never claim VALIDATED
    return HELD


def obligations(tier):
    vf_ = ["mcp.validate.ValidateTool.execute", "_error_envelope"]
    obs = [
    ] + [
        xh_ob(PROP, f"V.validate-tool-status-logic[profile={PROFILES[i]}]", _mk_V_status(i), timeout=900, bound="profile spelling fixed; 5 boolean flags x 3 input modes x parse outcome (ok/LexerError/ParserError/other) x builtin found x file schema (none/with fields/without fields/raises) x 0..2 errors before and after repair x emit/compile failure x literal zones", functions=vf_, stubs=["parse_with_warnings, get_builtin_schema, load_schema_by_name, Validator, repair, emit, GBNFCompiler, _count_literal_zones: stubs with symbolic outcomes"])
        for i in range(len(PROFILES))
    ] + [
        xh_ob(PROP, "W.write-tool-status-logic", W_status, timeout=2400, bound="5 schema arguments (name, frozen@, latest, empty, none) x lenient/grammar_hint/debug/salvage x tokenize failure x parse outcome x schema outcomes x 0..2 errors before/after repair x emit/compile/hermetic failure x content/normalize/both modes; corrections_only=true", functions=["mcp.write.WriteTool.execute", "_error_envelope"], stubs=["tokenize, parse, parse_with_warnings, loaders, Validator, repair, emit, GBNFCompiler, Path, hashing and diff helpers: stubs with symbolic outcomes"]),
        xh_ob(PROP, "S.malformed-schema-names-load-nothing", S_unknown_names, timeout=300, bound="all names <= 4 chars that the name pattern rejects", functions=["schemas.loader.load_schema_by_name", "SCHEMA_NAME_PATTERN"]),
        xh_ob(PROP, "E.eject-tool-status", E_status, timeout=600, bound="6 formats x 5 modes x content present x parse failure x schema argument x builtin", functions=["mcp.eject.EjectTool.execute"], stubs=["parse, get_builtin_schema: stubs"]),
    ]
    return select(obs, tier)
