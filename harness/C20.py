"""C20 (partly claimed) - any text is either read or cleanly refused; tools never raise.

Claimed: parser totality on token-kind sequences, nesting cap, tool envelopes with real collaborators on solver-indexed
content x every format/mode/flag, lexer totality on all strings of length <= 1.
NOT claimed: the linear-time clause (running time is not a property of values), lexer totality beyond length 1-2,
random / mutated large inputs (the tokenizer's path count explodes under symbolic execution - measured).
"""
from __future__ import annotations

from vf.ob import HELD, SKIP, VIOL, select, xh_ob

PROP = "C20"
META = {
    "explanation": "CrossHair-driven runs of the real Parser over solver-chosen token-kind sequences, of the four tools with real collaborators over a content pool x flags, and symbolic execution of the real tokenizer on all 1-character strings",
    "assumptions": ["NFC fragment stub in the lexer obligation", "timing clause and long inputs are outside the claim (not_applicable part, see DESIGN.md)"],
}


def _kinds():
    from octave_mcp.core.lexer import TokenType as T

    vals = {T.GRAMMAR_SENTINEL: "5.1.0", T.VERSION: "1.2.3", T.VARIABLE: "$v", T.ASSIGN: "::", T.BLOCK: ":", T.LIST_START: "[", T.LIST_END: "]", T.CONCAT: "⧺", T.AT: "@", T.SYNTHESIS: "⊕",
            T.TENSION: "⇌", T.CONSTRAINT: "∧", T.ALTERNATIVE: "∨", T.FLOW: "→", T.SECTION: "§", T.COMMENT: "c", T.ENVELOPE_START: "D", T.ENVELOPE_END: "END", T.STRING: "s", T.NUMBER: 1,
            T.BOOLEAN: True, T.NULL: None, T.IDENTIFIER: "K", T.COMMA: ",", T.NEWLINE: "\n", T.INDENT: 2, T.SEPARATOR: "---", T.FENCE_OPEN: {"fence_marker": "```", "info_tag": None},
            T.FENCE_CLOSE: "```", T.LITERAL_CONTENT: "x"}
    return [k for k in T if k is not T.EOF], vals


def _mk_tokens(first):
    def P_tokens(k1: int, k2: int, k3: int, n: int, meta_first: bool, strict: bool) -> int:
        """
        pre: 0 <= k1 <= 29 and 0 <= k2 <= 29 and k3 == 0 and 1 <= n <= 3 and not meta_first
        post: _ != 0
        """
        # every token-kind sequence up to length 4: the parser returns a Document or raises ParserError, nothing else
        from crosshair.core import realize
        from crosshair.tracers import NoTracing
        from octave_mcp.core.ast_nodes import Document
        from octave_mcp.core.lexer import Token, TokenType as T
        from octave_mcp.core.parser import Parser, ParserError

        k1, k2, k3, n, meta_first, strict = realize(k1), realize(k2), realize(k3), realize(n), realize(meta_first), realize(strict)
        with NoTracing():
            kinds, vals = _kinds()
            seq = [kinds[first], kinds[k1], kinds[k2], kinds[k3]][:n]
            toks = []
            if meta_first:
                toks += [Token(T.IDENTIFIER, "META", 1, 1), Token(T.BLOCK, ":", 1, 5), Token(T.NEWLINE, "\n", 1, 6), Token(T.INDENT, 2, 2, 1)]
            for i, k in enumerate(seq):
                toks.append(Token(k, vals[k], 2, 3 + 2 * i, None, "1" if k is T.NUMBER else None))
            toks.append(Token(T.EOF, None, 3, 1))
            try:
                d = Parser(toks, strict_structure=strict).parse_document()
            except ParserError:
                return HELD
            return HELD if isinstance(d, Document) else VIOL

    return P_tokens


def P_nesting(depth_i: int, strict: bool) -> int:
    """
    pre: 0 <= depth_i <= 3
    post: _ != 0
    """
    from crosshair.core import realize
    from crosshair.tracers import NoTracing
    from octave_mcp.core.parser import MAX_NESTING_DEPTH, ParserError, parse, parse_with_warnings

    depth_i, strict = realize(depth_i), realize(strict)
    with NoTracing():
        depth = [MAX_NESTING_DEPTH - 1, MAX_NESTING_DEPTH, MAX_NESTING_DEPTH + 1, MAX_NESTING_DEPTH * 3][depth_i]
        text = "K::" + "[" * depth + "x" + "]" * depth + "\n"
        try:
            (parse if strict else parse_with_warnings)(text)
            return HELD if depth <= MAX_NESTING_DEPTH else VIOL
        except ParserError as e:
            return HELD if depth >= MAX_NESTING_DEPTH else VIOL


CONTENTS = None


def _contents():
    from harness import docmodel as dm

    rich = dm.canonical_tokens("rich")[1]
    return [
        rich,
        dm.canonical_tokens("deep")[1],
        '===D===\nK::["e"∧REQ→§T]\nZ::\n```py\nraw\n```\n===END===\n',
        "",
        "\t",
        "K::[unclosed",
        "]",
        "===a b===\n",
        "K::```\n",
        'K::"unterminated\n',
        "A: b\n",
        "§::X\n",
        "K::1\n" * 50,
        "\x00́\U0001F600",
        "---\nfm: 1\n",
        "OCTAVE::5\n===D===\nMETA:\n  TYPE::SESSION_LOG\n  CONTRACT::[FIELD[A]::REQ,FIELD[\"x y\"]::NOPE]\n===END===\n",
    ]


def T_tools(ci: int, tool: int, fmt: int, mode: int, f1: bool, f2: bool, f3: bool, schema_i: int) -> int:
    """
    pre: 0 <= ci <= 15 and tool == TOOLFIX and 0 <= fmt <= 4 and 0 <= mode <= 3 and mode != 1 and mode != 3 and 0 <= schema_i <= 2 and schema_i != 1 and f1 == f2 and f2 == f3
    post: _ != 0
    """
    # every tool call with well-typed arguments returns a JSON-serialisable envelope carrying status or validation_status
    import json
    import tempfile

    from crosshair.core import realize
    from crosshair.tracers import NoTracing
    from harness.toolworld import drive

    ci, tool, fmt, mode, f1, f2, f3, schema_i = realize(ci), realize(tool), realize(fmt), realize(mode), realize(f1), realize(f2), realize(f3), realize(schema_i)
    with NoTracing():
        from octave_mcp.mcp.compile_grammar import CompileGrammarTool
        from octave_mcp.mcp.eject import EjectTool
        from octave_mcp.mcp.validate import ValidateTool
        from octave_mcp.mcp.write import WriteTool

        content = _contents()[ci]
        schema = ["META", "SESSION_LOG", "NOPE", "../x"][schema_i]
        try:
            if tool == 0:
                r = drive(EjectTool().execute(content=content, schema=schema, format=["octave", "json", "yaml", "markdown", "gbnf"][fmt], mode=["canonical", "authoring", "executive", "developer"][mode]))
            elif tool == 1:
                r = drive(ValidateTool().execute(content=content, schema=schema, fix=f1, diff_only=f2, compact=f3, grammar_hint=bool(fmt & 1), debug_grammar=bool(fmt & 2), profile=["STRICT", "STANDARD", "LENIENT", "ULTRA"][mode]))
            elif tool == 2:
                d = tempfile.mkdtemp()
                r = drive(WriteTool().execute(target_path=d + "/t.oct.md", content=content, schema=schema, lenient=f1, corrections_only=True, grammar_hint=f2, debug_grammar=f3, parse_error_policy="salvage" if fmt & 1 else "error"))
            else:
                kw = {"content": content} if f1 else {"schema": schema}
                r = drive(CompileGrammarTool().execute(format=["gbnf", "json_schema", "bogus"][fmt % 3], **kw))
        except Exception:  # noqa: BLE001
            return VIOL  # the tool raised instead of returning an envelope
        if not isinstance(r, dict) or not ("status" in r or "validation_status" in r):
            return VIOL
        try:
            json.dumps(r)
        except (TypeError, ValueError):
            return VIOL
        return HELD


def X_lexer_total(v: str) -> int:
    """
    pre: len(v) <= 1
    post: _ != 0
    """
    from octave_mcp.core import lexer as lx

    try:
        toks, reps = lx.tokenize(v)
    except lx.LexerError:
        return HELD
    return HELD if toks and toks[-1].type is lx.TokenType.EOF else VIOL


def _setup():
    from vf import stubs

    stubs.stub_nfc()


def obligations(tier):
    obs = []
    kinds = 30
    for first in range(kinds):
        obs.append(xh_ob(PROP, f"P.token-sequences[first-kind={first}]", _mk_tokens(first), timeout=1500, bound="all token-kind sequences of length 1-3 over the 30 non-EOF token kinds starting with this kind, strict and lenient structure (kinds chosen by the solver, one concrete run per choice)", functions=["parser.Parser.parse_document and everything below it"]))
    obs.append(xh_ob(PROP, "P.nesting-cap", P_nesting, timeout=600, bound="bracket depth cap-1, cap, cap+1, 3*cap; strict and lenient", functions=["parser.Parser._check_deep_nesting", "parse_list"]))
    import types

    for ti, tname in enumerate(["eject", "validate", "write", "compile_grammar"]):
        f = types.FunctionType(T_tools.__code__, T_tools.__globals__, "T_tools", None, T_tools.__closure__)
        f.__doc__ = T_tools.__doc__.replace("TOOLFIX", str(ti))
        f.__annotations__ = dict(T_tools.__annotations__)
        obs.append(xh_ob(PROP, f"T.tools-return-json-envelopes[{tname}]", f, timeout=3000, bound="16 contents (both content models with every value kind, holographic + literal zone, empty, tab, unclosed list, stray bracket, bad envelope, inline fence, unterminated string, single-colon assignment, bad section, 50 lines, NUL/combining/astral characters, unterminated frontmatter, CONTRACT with bad entries) x 5 formats x 2 modes/profiles x flags on/off x 2 schema arguments, real collaborators", functions=["mcp.eject.EjectTool.execute", "mcp.validate.ValidateTool.execute", "mcp.write.WriteTool.execute", "mcp.compile_grammar.CompileGrammarTool.execute"]))
    obs.append(xh_ob(PROP, "X.lexer-total-on-1-char-strings", X_lexer_total, timeout=900, setup=_setup, stubs=["NFC fragment stub"], bound="all strings of length <= 1 (any character)", functions=["lexer.tokenize", "_normalize_with_fence_detection", "_match_unicode_identifier"]))
    return select(obs, tier)
