"""C20 (partly claimed) - any text is either read or cleanly refused; tools never raise.

Claimed: parser totality on token-kind sequences, nesting cap, tool envelopes with real collaborators on solver-indexed
content x every format/mode/flag, lexer totality on all strings of length <= 1.
NOT claimed: the linear-time clause (running time is not a property of values), lexer totality beyond length 1-2,
random / mutated large inputs (the tokenizer's path count explodes under symbolic execution - measured).
"""
from __future__ import annotations

from vf.ob import HELD, SKIP, VIOL, pick, pickb, select, xh_ob

PROP = "C20"
META = {
    "explanation": "CrossHair-driven runs of the real Parser over solver-chosen token-kind sequences, of the four tools with real collaborators over a content pool x flags, and symbolic execution of the real tokenizer on all 1-character strings",
    "assumptions": ["NFC fragment stub in the lexer obligation", "timing clause and long inputs are outside the claim (not_applicable part, see DESIGN.md)"],
}


def _kinds():
    from octave_mcp.core.lexer import TokenType as T

    vals = {T.GRAMMAR_SENTINEL: "5.1.0", T.VERSION: "1.2.3", T.VARIABLE: "$v", T.ASSIGN: "::", T.BLOCK: ":", T.LIST_START: "[", T.LIST_END: "]", T.CONCAT: "⧺", T.AT: "@", T.SYNTHESIS: "⊕",
            T.TENSION: "⇌", T.CONSTRAINT: "∧", T.ALTERNATIVE: "∨", T.FLOW: "→", T.SECTION: "§", T.COMMENT: "c", T.ENVELOPE_START: "D", T.ENVELOPE_END: "END", T.STRING: "s", T.NUMBER: 1,
            T.BOOLEAN: True, T.NULL: None, T.IDENTIFIER: "K", T.COMMA: ",", T.NEWLINE: "\n", T.INDENT: 2, T.SEPARATOR: "---", T.FENCE_OPEN: {"fence_marker": "```", "info_tag": None},
            T.FENCE_CLOSE: "```", T.LITERAL_CONTENT: "x"}
    return [k for k in T if k is not T.EOF], vals


def _mk_tokens(first, nmax, smax=1, concrete=False):
    def P_tokens(k1: int, k2: int, n: int, strict: bool, s: str, num: int, ind: int) -> int:
        """
        pre: 0 <= k1 <= 29 and 0 <= k2 <= 29 and 1 <= n <= NMAX and (n >= 2 or k1 == 0) and (n >= 3 or k2 == 0) and len(s) <= SMAX and 0 <= ind <= 6
        post: _ != 0
        """
        # every token-kind sequence up to length NMAX (kinds chosen by the solver) whose string-valued tokens
        # (IDENTIFIER, STRING, COMMENT, ENVELOPE_START, VARIABLE) carry the SYMBOLIC text s, NUMBER the symbolic int num,
        # INDENT the symbolic width ind: the real parser returns a Document or raises ParserError, nothing else
        from crosshair.core import realize
        from crosshair.tracers import NoTracing
        from octave_mcp.core.ast_nodes import Document
        from octave_mcp.core.lexer import Token, TokenType as T
        from octave_mcp.core.parser import Parser, ParserError

        k1, k2, n, strict = pick(k1, 30), pick(k2, 30), pick(n, 3, 1), pickb(strict)
        if concrete:
            s, num, ind = "K", 1, 2
        with NoTracing():
            kinds, vals = _kinds()
            seq = [kinds[first], kinds[k1], kinds[k2]][:n]
            if concrete:
                toks = [Token(k, vals[k], 2, 3 + 2 * i, None, "1" if k is T.NUMBER else None) for i, k in enumerate(seq)] + [Token(T.EOF, None, 3, 1)]
                try:
                    d = Parser(toks, strict_structure=strict).parse_document()
                except ParserError:
                    return HELD
                return HELD if isinstance(d, Document) else VIOL
        toks = []
        for i, k in enumerate(seq):
            if k in (T.IDENTIFIER, T.STRING, T.COMMENT, T.ENVELOPE_START):
                v = s
            elif k is T.VARIABLE:
                v = "$" + s
            elif k is T.NUMBER:
                v = num
            elif k is T.INDENT:
                v = ind
            else:
                v = vals[k]
            toks.append(Token(k, v, 2, 3 + 2 * i, None, "1" if k is T.NUMBER else None))
        toks.append(Token(T.EOF, None, 3, 1))
        try:
            d = Parser(toks, strict_structure=strict).parse_document()
        except ParserError:
            return HELD
        return HELD if isinstance(d, Document) else VIOL

    P_tokens.__doc__ = P_tokens.__doc__.replace("NMAX", str(nmax)).replace("SMAX", str(smax))
    if concrete:
        P_tokens.__doc__ = P_tokens.__doc__.replace("and len(s) <= ", "and s == '' and num == 0 and ind == 0 and len(s) <= ")
    return P_tokens


def P_nesting(depth_i: int, entry: int, pos: int) -> int:
    """
    pre: 0 <= depth_i <= 4 and 0 <= entry <= 2 and 0 <= pos <= 3
    post: _ != 0
    """
    # bracket nesting around the cap, at every position a value can sit in (top-level, block child, META field,
    # section child), through every reader entry point: refused with ParserError at/over the cap, never RecursionError
    from crosshair.core import realize
    from crosshair.tracers import NoTracing
    from octave_mcp.core.parser import MAX_NESTING_DEPTH, ParserError, parse, parse_meta_only, parse_with_warnings

    depth_i, entry, pos = pick(depth_i, 5), pick(entry, 3), pick(pos, 4)
    with NoTracing():
        depth = [MAX_NESTING_DEPTH - 1, MAX_NESTING_DEPTH, MAX_NESTING_DEPTH + 1, MAX_NESTING_DEPTH * 4, MAX_NESTING_DEPTH * 60][depth_i]
        v = "[" * depth + "x" + "]" * depth
        text = ["K::" + v + "\n", "B:\n  K::" + v + "\n", "===D===\nMETA:\n  TYPE::T\n  K::" + v + "\n===END===\n", "§1::S\n  K::" + v + "\n"][pos]
        if entry == 2 and pos != 2:
            return SKIP  # parse_meta_only only reads the META block
        try:
            (parse, parse_with_warnings, parse_meta_only)[entry](text)
            return HELD if depth <= MAX_NESTING_DEPTH else VIOL
        except ParserError:
            return HELD if depth >= MAX_NESTING_DEPTH else VIOL


_HV = [None]


def _setup_hv():
    from octave_mcp.core.parser import parse

    _HV[0] = parse('K::["e"∧REQ→§T]\n').sections[0].value


def J_converted_values_serialise(k0: int, k1: int, k2: int, fmt: int, s: str, num: int) -> int:
    """
    pre: 0 <= k0 <= 8 and 0 <= k1 <= 8 and 0 <= k2 <= 6 and 0 <= fmt <= 1 and s == 't' and num == 3
    post: _ != 0
    """
    # every value tree (kinds chosen by the solver: scalar kinds, list, inline map, holographic pattern, literal zone;
    # a container holds [item, leaf] where item is again of any kind and holds one leaf of any scalar kind) converts to something json.dumps / the Markdown
    # formatter accept: no AST object leaks into a projection.  Leaf texts / numbers symbolic.
    import json

    from crosshair.core import deep_realize, realize
    from crosshair.tracers import NoTracing
    from octave_mcp.core.ast_nodes import Assignment, Block, Document, HolographicValue, InlineMap, ListValue, LiteralZoneValue, Section
    from octave_mcp.mcp import eject as ej

    k0, k1, k2, fmt = pick(k0, 9), pick(k1, 9), pick(k2, 7), pick(fmt, 2)
    if _HV[0] is None:
        with NoTracing():
            _setup_hv()

    def leaf(k):
        if k == 0:
            return s
        if k == 1:
            return num
        if k == 2:
            return None
        if k == 3:
            return True
        if k == 4:
            return 2.5
        if k == 5:
            return _HV[0]
        return LiteralZoneValue(content=s, info_tag=None, fence_marker="```")

    def mk(k, items):
        if k <= 6:
            return leaf(k)
        if k == 7:
            return ListValue(items=list(items))
        return InlineMap(pairs={"P%d" % i: it for i, it in enumerate(items)})

    with NoTracing():
        s, num = "t", 3
        top = mk(k0, [mk(k1, [leaf(k2)]), leaf(k2)])
    if not isinstance(_HV[0], HolographicValue):
        return SKIP
    with NoTracing():
        doc = Document(name="D", meta={"TYPE": "T", "M": top}, sections=[Assignment(key="A", value=top), Block(key="B", children=[Assignment(key="C", value=top)]), Section(section_id="1", key="S", children=[Assignment(key="E", value=top)])])
        if fmt == 0:
            d = ej._ast_to_dict(doc)
            try:
                json.dumps(d, ensure_ascii=False)
            except (TypeError, ValueError):
                return VIOL
            return HELD
        md = ej._ast_to_markdown(doc)
        return HELD if isinstance(md, str) and "Value(" not in md and "InlineMap(" not in md else VIOL


CONTENTS = None


def _contents():
    from harness import docmodel as dm

    rich = dm.canonical_tokens("rich")[1]
    return [
        rich,
        dm.canonical_tokens("deep")[1],
        '===D===\nK::["e"∧REQ→§T]\nZ::\n```py\nraw\n```\n===END===\n',
        "",
        "\t",
        "K::[unclosed",
        "]",
        "===a b===\n",
        "K::```\n",
        'K::"unterminated\n',
        "A: b\n",
        "§::X\n",
        "K::1\n" * 50,
        "\x00́\U0001F600",
        "---\nfm: 1\n",
        'K::[["x"∧REQ→§SELF],fallback]\nL::[k::["y"∧OPT],[["z"∧REQ]]]\n',
        "OCTAVE::5\n===D===\nMETA:\n  TYPE::SESSION_LOG\n  CONTRACT::[FIELD[A]::REQ,FIELD[\"x y\"]::NOPE]\n===END===\n",
    ]


def T_tools(ci: int, tool: int, fmt: int, mode: int, f1: bool, f2: bool, f3: bool, schema_i: int) -> int:
    """
    pre: 0 <= ci <= 16 and tool == TOOLFIX and 0 <= fmt <= 4 and 0 <= mode <= 3 and mode != 1 and mode != 3 and 0 <= schema_i <= 2 and schema_i != 1 and f1 == f2 and f2 == f3
    post: _ != 0
    """
    # every tool call with well-typed arguments returns a JSON-serialisable envelope carrying status or validation_status
    import json
    import tempfile

    from crosshair.core import realize
    from crosshair.tracers import NoTracing
    from harness.toolworld import drive

    ci, tool, fmt, mode, f1, f2, f3, schema_i = pick(ci, 17), pick(tool, 4), pick(fmt, 5), pick(mode, 4), pickb(f1), pickb(f2), pickb(f3), pick(schema_i, 3)
    with NoTracing():
        from octave_mcp.mcp.compile_grammar import CompileGrammarTool
        from octave_mcp.mcp.eject import EjectTool
        from octave_mcp.mcp.validate import ValidateTool
        from octave_mcp.mcp.write import WriteTool

        content = _contents()[ci]
        schema = ["META", "SESSION_LOG", "NOPE", "../x"][schema_i]
        try:
            if tool == 0:
                r = drive(EjectTool().execute(content=content, schema=schema, format=["octave", "json", "yaml", "markdown", "gbnf"][fmt], mode=["canonical", "authoring", "executive", "developer"][mode]))
            elif tool == 1:
                r = drive(ValidateTool().execute(content=content, schema=schema, fix=f1, diff_only=f2, compact=f3, grammar_hint=bool(fmt & 1), debug_grammar=bool(fmt & 2), profile=["STRICT", "STANDARD", "LENIENT", "ULTRA"][mode]))
            elif tool == 2:
                d = tempfile.mkdtemp()
                r = drive(WriteTool().execute(target_path=d + "/t.oct.md", content=content, schema=schema, lenient=f1, corrections_only=True, grammar_hint=f2, debug_grammar=f3, parse_error_policy="salvage" if fmt & 1 else "error"))
            else:
                kw = {"content": content} if f1 else {"schema": schema}
                r = drive(CompileGrammarTool().execute(format=["gbnf", "json_schema", "bogus"][fmt % 3], **kw))
        except Exception:  # noqa: BLE001
            return VIOL  # the tool raised instead of returning an envelope
        if not isinstance(r, dict) or not ("status" in r or "validation_status" in r):
            return VIOL
        try:
            json.dumps(r)
        except (TypeError, ValueError):
            return VIOL
        return HELD


def X_lexer_total(v: str) -> int:
    """
    pre: len(v) <= 1 and (XCOND)
    post: _ != 0
    """
    from octave_mcp.core import lexer as lx

    try:
        toks, reps = lx.tokenize(v)
    except lx.LexerError:
        return HELD
    return HELD if toks and toks[-1].type is lx.TokenType.EOF else VIOL


def _setup():
    from vf import stubs

    stubs.stub_nfc()


def TF_validate_faults(profile_i: int, fix: bool, diff_only: bool, compact: bool, grammar_hint: bool, debug: bool, parse_outcome: int, builtin: bool, load_outcome: int, n1: int, n2: int, emit_raises: bool, compile_raises: bool, zones: bool, input_mode: int) -> int:
    """
    pre: profile_i == PFIX and 0 <= parse_outcome <= 3 and 0 <= load_outcome <= 3 and 0 <= n1 <= 1 and 0 <= n2 <= 1 and 0 <= input_mode <= 2
    post: _ != 0
    """
    # whatever its collaborators do (incl. exception types the tool does not expect: RuntimeError from the reader,
    # ValueError from the emitter, KeyError from the compiler, OSError from the loader) octave_validate returns an envelope
    import json

    from harness.C10 import _validate_core

    def check(w, r, prof, kwargs):
        if not isinstance(r, dict) or not ("status" in r or "validation_status" in r):
            return VIOL
        try:
            json.dumps(r)
        except (TypeError, ValueError):
            return VIOL
        return HELD

    return _validate_core(profile_i, fix, diff_only, compact, grammar_hint, debug, parse_outcome, builtin, load_outcome, n1, n2, emit_raises, compile_raises, zones, input_mode, check)


def TF_write_faults(schema_i: int, lenient: bool, grammar_hint: bool, debug: bool, tok_raises: bool, parse_outcome: int, builtin: bool, load_outcome: int, n1: int, n2: int, emit_raises: bool, compile_raises: bool, hermetic_raises: bool, mode: int, corrections_only: bool) -> int:
    """
    pre: 0 <= schema_i <= 4 and 0 <= parse_outcome <= 3 and 0 <= load_outcome <= 3 and 0 <= n1 <= 2 and 0 <= n2 <= 2 and 0 <= mode <= 3
    post: _ != 0
    """
    import json

    from harness.C10 import SCHEMAS, _install_write_stubs
    from harness.toolworld import World, drive

    w = World()
    mod = _install_write_stubs(w, tok_raises=tok_raises, parse_outcome=parse_outcome, builtin=builtin, load_outcome=load_outcome, n1=n1, n2=n2, emit_raises=emit_raises, compile_raises=compile_raises, file_exists=False, hermetic_raises=hermetic_raises)
    kwargs = {"target_path": "/t/x.oct.md", "lenient": lenient, "grammar_hint": grammar_hint, "debug_grammar": debug, "corrections_only": True}
    sch = SCHEMAS[schema_i]
    if sch is not None:
        kwargs["schema"] = sch
    if mode in (0, 2):
        kwargs["content"] = "K::v"
    if mode in (2, 3):
        kwargs["changes"] = {"K": 1}
    r = drive(mod.WriteTool().execute(**kwargs))
    if not isinstance(r, dict) or not ("status" in r or "validation_status" in r):
        return VIOL
    try:
        json.dumps(r)
    except (TypeError, ValueError):
        return VIOL
    return HELD


_CLASSES = [("ws", " \t"), ("nl", "\n\r"), ("digit", "0123456789"), ("quote", "\"'"), ("tick", "`"), ("dash-plus", "-+"), ("colon", ":"), ("angle-brace", "<>{}"), ("bracket", "[]()"), ("slash-hash", "/#"),
            ("op", "~|&@$%*=!?^;,.\\"), ("underscore", "_")]


def _mk_lexer_len2(chars, rest):
    def X2(v: str) -> int:
        """
        pre: len(v) == 2 and (COND)
        post: _ != 0
        """
        from octave_mcp.core import lexer as lx

        try:
            toks, reps = lx.tokenize(v)
        except lx.LexerError:
            return HELD
        return HELD if toks and toks[-1].type is lx.TokenType.EOF else VIOL

    if rest == "letters":
        cond = "('a' <= v[0] <= 'z') or ('A' <= v[0] <= 'Z')"
    elif rest == "other":
        allc = "".join(c for _, c in _CLASSES)
        cond = "not (v[0] in %r) and not (('a' <= v[0] <= 'z') or ('A' <= v[0] <= 'Z'))" % allc
    else:
        cond = "v[0] in %r" % chars
    X2.__doc__ = X2.__doc__.replace("COND", cond.replace(chr(92), chr(92) * 2))
    return X2


def obligations(tier):
    th = tier == "thorough"
    obs = []
    kinds = 30
    nmax = 3 if th else 2
    for first in range(kinds):
        obs.append(xh_ob(PROP, f"P.token-sequences[first-kind={first}]", _mk_tokens(first, 3, concrete=True), timeout=900, bound=f"all token-kind sequences of length 1-3 over the 30 non-EOF token kinds starting with this kind (kinds chosen by the solver; one run of the real parser per choice, token texts are fixed placeholders), strict and lenient structure", functions=["parser.Parser.parse_document and everything below it"]))
    if th:
        for first in range(kinds):
            obs.append(xh_ob(PROP, f"P.token-sequences-symbolic-texts[first-kind={first}]", _mk_tokens(first, 2, smax=1), timeout=2400, tiers=("thorough",), optional=True, bound="deepening: sequences of length 1-2 starting with this kind where the text of IDENTIFIER/STRING/COMMENT/ENVELOPE_START/VARIABLE tokens is one symbolic string |s| <= 1 (any character), NUMBER any int, INDENT width 0..6; not claimed if the path tree is not exhausted", functions=["parser.Parser.parse_document and everything below it"]))
    obs.append(xh_ob(PROP, "P.nesting-cap", P_nesting, timeout=600, bound="bracket depth cap-1, cap, cap+1, 4*cap, 60*cap x value position (top level, block child, META field, section child) x entry point (parse, parse_with_warnings, parse_meta_only)", functions=["parser.Parser._check_deep_nesting", "parse_list", "parse", "parse_with_warnings", "parse_meta_only"]))
    obs.append(xh_ob(PROP, "J.projected-values-are-serialisable", J_converted_values_serialise, timeout=900, setup=_setup_hv, bound="value trees of depth <= 3: 9 kinds (str, int, null, bool, float, holographic, literal zone, list, inline map) at the top, a container holds an item of any of the 9 kinds (itself holding one leaf of the 7 scalar kinds) and that leaf; fixed leaf text / number (kinds chosen by the solver, one run of the real converters per choice); placed in META, top level, block and section; JSON dict route and Markdown route", functions=["mcp.eject._ast_to_dict", "_convert_block", "_convert_value", "_ast_to_markdown", "_block_to_markdown", "_format_markdown_value"]))
    import types

    for ti, tname in enumerate(["eject", "validate", "write", "compile_grammar"]):
        f = types.FunctionType(T_tools.__code__, T_tools.__globals__, "T_tools", None, T_tools.__closure__)
        f.__doc__ = T_tools.__doc__.replace("TOOLFIX", str(ti))
        f.__annotations__ = dict(T_tools.__annotations__)
        obs.append(xh_ob(PROP, f"T.tools-return-json-envelopes[{tname}]", f, timeout=3000, bound="17 contents (holographic patterns inside lists / inline maps, both content models with every value kind, holographic + literal zone, empty, tab, unclosed list, stray bracket, bad envelope, inline fence, unterminated string, single-colon assignment, bad section, 50 lines, NUL/combining/astral characters, unterminated frontmatter, CONTRACT with bad entries) x 5 formats x 2 modes/profiles x flags on/off x 2 schema arguments, real collaborators (solver-indexed pool: every combination is one concrete run of the real tool)", functions=["mcp.eject.EjectTool.execute", "mcp.validate.ValidateTool.execute", "mcp.write.WriteTool.execute", "mcp.compile_grammar.CompileGrammarTool.execute"]))
    tstubs = ["reader, loader, Validator, repair, emitter, GBNFCompiler replaced by stubs whose outcomes (return / raise, incl. unexpected exception types) are symbolic"]
    for pi in range(7):
        f = types.FunctionType(TF_validate_faults.__code__, TF_validate_faults.__globals__, "TF_validate_faults", None, TF_validate_faults.__closure__)
        f.__doc__ = TF_validate_faults.__doc__.replace("PFIX", str(pi))
        f.__annotations__ = dict(TF_validate_faults.__annotations__)
        obs.append(xh_ob(PROP, f"TF.validate-tool-never-raises-under-collaborator-faults[profile#{pi}]", f, timeout=900, bound=f"profile spelling #{pi} of 7 x 5 flags x 3 input modes x reader outcome (ok/LexerError/ParserError/RuntimeError) x schema outcomes (none/fields/no fields/OSError) x 0..1 errors x emitter ValueError x compiler KeyError x zones", functions=["mcp.validate.ValidateTool.execute"], stubs=tstubs))
    obs.append(xh_ob(PROP, "TF.write-tool-never-raises-under-collaborator-faults", TF_write_faults, timeout=2400, bound="5 schema arguments x flags x tokenizer/reader/loader/emitter/compiler/hermetic failures x 4 argument modes (content / none / content+changes / changes only); corrections_only", functions=["mcp.write.WriteTool.execute"], stubs=tstubs))
    xparts = [("empty-or-below-0x30", "len(v) == 0 or v[0] < '0'"), ("0x30-0x5f", "len(v) == 1 and '0' <= v[0] < '`'"), ("0x60-0x7f", "len(v) == 1 and '`' <= v[0] < chr(128)"), ("0x80-0x2fff", "len(v) == 1 and chr(128) <= v[0] < chr(0x3000)"), ("0x3000-up", "len(v) == 1 and chr(0x3000) <= v[0]")]
    for xname, xcond in xparts:
        f = types.FunctionType(X_lexer_total.__code__, X_lexer_total.__globals__, "X_lexer_total", None, X_lexer_total.__closure__)
        f.__doc__ = X_lexer_total.__doc__.replace("XCOND", xcond)
        f.__annotations__ = dict(X_lexer_total.__annotations__)
        obs.append(xh_ob(PROP, f"X.lexer-total-on-1-char-strings[{xname}]", f, timeout=900, setup=_setup, stubs=["NFC fragment stub"], optional=xname.startswith(("0x80", "0x3000")), bound="all strings of length <= 1 whose character lies in this range (the 5 ranges partition all characters; the empty string is in the first)" + ("; DEEPENING obligation: the non-ASCII ranges fork per Unicode category table entry and did not exhaust in 900 s on a loaded machine - claimed only when exhausted" if xname.startswith(("0x80", "0x3000")) else ""), functions=["lexer.tokenize", "_normalize_with_fence_detection", "_match_unicode_identifier"]))
    if th:
        for cname, chars in _CLASSES + [("letters", None), ("other", None)]:
            rest = cname if chars is None else None
            obs.append(xh_ob(PROP, f"X.lexer-total-on-2-char-strings[first={cname}]", _mk_lexer_len2(chars, rest), timeout=3000, setup=_setup, stubs=["NFC fragment stub"], tiers=("thorough",), optional=True,
                             bound="all strings of length 2 whose first character is in this class (the 14 classes partition all characters); deepening obligation: if the path tree is not exhausted inside the budget the bound is NOT claimed (reported, exit code unaffected)", functions=["lexer.tokenize"]))
    return select(obs, tier)
