"""C04 - every scalar survives write-then-read with value and type intact.

RX: for each bare arm of needs_quotes (identifier / variable / annotation / expression) and for the number and
literal texts, the emitted text followed by anything that can follow a value in canonical output is tokenised by the
lexer model as exactly the token(s) that parse back to the value.  Unbounded in string length.
XH: lemmas tying the model to the real functions (needs_quotes, escape/unescape chain through the real tokenizer,
the real parser at the four value positions, write-tool value normalisation).
"""
from __future__ import annotations

from vf import lexmodel as lm
from vf import rx
from vf.ob import HELD, SKIP, VIOL, kf_active, rx_ob, select, xh_ob

PROP = "C04"

META = {
    "explanation": "RX: regular-language inclusion queries (z3 sequence theory, alphabet reduced to minterm "
    "representatives) built from the live regex tables of lexer/emitter; XH: CrossHair symbolic execution of the real "
    "needs_quotes/emit_value/emit_assignment/tokenize/Parser/WriteTool helpers on symbolic strings and tokens.",
    "assumptions": [
        "CPython facts: int(str(n))==n, float(repr(x))==x for finite x, shape of repr(float)",
        "z3 strings cover U+0000..U+2FFFF; astral planes above are outside the RX claims",
        "ordered-choice skeleton of tokenize (first matching pattern, '+', identifier scanner, '%'-merge) is "
        "hand-transcribed; table contents are read live",
    ],
}


# ---------------------------------------------------------------------------
# XH lemmas
# ---------------------------------------------------------------------------
def model_bare(v: str) -> bool:
    """Transcription of the decision RX reasons with: bare iff non-empty, no \\n\\t\\r, not reserved, and in one of
    the four live pattern languages."""
    from octave_mcp.core import emitter as em

    if not v:
        return False
    if "\n" in v or "\t" in v or "\r" in v:
        return False
    if v in lm.RESERVED:
        return False
    lead = getattr(em, "_RESERVED_LEAD_PATTERN", None)
    split = getattr(em, "_SEGMENT_SPLIT_PATTERN", None)
    if lead is not None and split is not None:
        for seg in split.split(v):
            if lead.match(seg):
                return False
    return bool(
        em.VARIABLE_PATTERN.match(v)
        or em.ANNOTATION_PATTERN.match(v)
        or em.EXPRESSION_PATTERN.match(v)
        or em.IDENTIFIER_PATTERN.match(v)
    )


def _mk_L3(n):
    def L3(v: str) -> int:
        """
        pre: len(v) <= N
        post: _ != 0
        """
        from octave_mcp.core import emitter as em

        # one-directional: whatever needs_quotes leaves bare lies in the language RX proves re-lexable
        if em.needs_quotes(v):
            return SKIP
        return HELD if model_bare(v) else VIOL

    L3.__doc__ = L3.__doc__.replace("N", str(n))
    return L3


def L3_replay(v: str) -> int:
    bad, _ = _replay_words([v])
    return VIOL if bad else HELD


def _segments(v: str):
    """Split an expression value at the emitter's operator characters."""
    ops = lm.unicode_ops()
    out = []
    cur = ""
    for ch in v:
        if ch in ops:
            out.append(cur)
            cur = ""
        else:
            cur += ch
    out.append(cur)
    return out


def in_reserved_prefix_family(v: str) -> bool:
    """Known-finding family 'reserved-prefix': some operator-separated segment of v is a reserved word, or starts
    with a reserved word followed by '.', '-' or '<'."""
    for seg in _segments(v):
        for w in lm.RESERVED:
            if seg == w:
                return True
            if seg.startswith(w) and len(seg) > len(w) and seg[len(w)] in ".-<":
                return True
    return False


def in_escape_order_family(v: str) -> bool:
    """Known-finding family 'unescape-order': value contains a backslash followed by n, t, a quote or a backslash
    (the sequential replace() un-escaping in tokenize misreads these)."""
    for i in range(len(v) - 1):
        if v[i] == "\\" and v[i + 1] in 'nt"\\':
            return True
    return False


def _mk_L4(n, key):
    def L4(v: str) -> int:
        """
        pre: len(v) <= N
        post: _ != 0
        """
        from octave_mcp.core import emitter as em
        from octave_mcp.core import lexer as lx
        from octave_mcp.core.ast_nodes import Assignment
        from vf.stubs import nfc_expected

        if kf_active(PROP, "unescape-order") and in_escape_order_family(v):
            return SKIP
        line = em.emit_assignment(Assignment(key=key, value=v), 0)
        text = line[len(key) + 2 :]
        if not text.startswith('"'):
            return SKIP  # bare arm: covered by the RX obligations
        toks, repairs = lx.tokenize(text + "\n")
        if len(toks) != 3:
            return VIOL
        t0 = toks[0]
        if t0.type is not lx.TokenType.STRING or toks[1].type is not lx.TokenType.NEWLINE:
            return VIOL
        if t0.value != nfc_expected(v):
            return VIOL
        if len(repairs) != 0:
            return VIOL
        return HELD

    L4.__doc__ = L4.__doc__.replace("N", str(n))
    return L4


def _mk_L4b(n, always_quote_key):
    def L4b(v: str) -> int:
        """
        pre: len(v) <= N
        post: _ != 0
        """
        # escape (real emit_assignment) then un-escape (STRING branch sliced out of the real tokenize) is the identity
        from octave_mcp.core import emitter as em
        from octave_mcp.core.ast_nodes import Assignment
        from vf.slices import tokenize_string_branch

        if not always_quote_key:
            v = " " + v  # forces the quoted arm without a symbolic walk through needs_quotes' four regexes
            text = em.emit_value(v)
        else:
            text = em.emit_assignment(Assignment(key="PATTERN", value=v), 0)[9:]
        if not text.startswith('"'):
            return VIOL
        value, normalized_from = tokenize_string_branch()(text)
        if normalized_from is not None:
            return VIOL
        return HELD if value == v else VIOL

    L4b.__doc__ = L4b.__doc__.replace("N", str(n))
    return L4b


def _mk_L4b_replay(always_quote_key):
    def replay(v: str) -> int:
        return L4b_replay(v if always_quote_key else " " + v, always_quote_key)

    return replay


def L4b_replay(v: str, always_quote_key: bool) -> int:
    from octave_mcp.core.ast_nodes import Assignment, Document
    from octave_mcp.core.emitter import emit
    from octave_mcp.core.parser import parse
    import unicodedata

    key = "PATTERN" if always_quote_key else "K"
    try:
        got = parse(emit(Document(name="D", sections=[Assignment(key=key, value=v)]))).sections[0].value
    except Exception:  # noqa: BLE001
        return VIOL
    return HELD if got == unicodedata.normalize("NFC", v) else VIOL


def _in_quoted_model(t: str) -> bool:
    """Recogniser of Q E Q with E = (plain | \\\\ | \\" | \\n | \\t)*, plain = any char but quote, backslash, LF, TAB."""
    if len(t) < 2 or t[0] != '"' or t[-1] != '"':
        return False
    i = 1
    end = len(t) - 1
    while i < end:
        c = t[i]
        if c == "\\":
            if i + 1 >= end or t[i + 1] not in '\\"nt':
                return False
            i += 2
        elif c == '"' or c == "\n" or c == "\t":
            return False
        else:
            i += 1
    return i == end


def _mk_L4c(n, always_quote_key):
    def L4c(v: str) -> int:
        """
        pre: len(v) <= N
        post: _ != 0
        """
        # every quoted text the emitter writes lies in the regular language Q E Q that RX reasons about
        from octave_mcp.core import emitter as em
        from octave_mcp.core.ast_nodes import Assignment

        key = "PATTERN" if always_quote_key else "K"
        line = em.emit_assignment(Assignment(key=key, value=v), 0)
        text = line[len(key) + 2 :]
        if not text.startswith('"'):
            return SKIP
        return HELD if _in_quoted_model(text) else VIOL

    L4c.__doc__ = L4c.__doc__.replace("N", str(n))
    return L4c


def quoted_lang():
    plain = rx.not_chars('"\\\n\t')
    esc = rx.cat(rx.lit("\\"), rx.chars('\\"nt'))
    return rx.cat(rx.lit('"'), rx.star(rx.alt(plain, esc)), rx.lit('"'))


def build_quoted():
    qs = []
    Q = quoted_lang()
    string_pat = lm.pattern_of("STRING", 1)
    full = rx.fullmatch_lang(string_pat)
    fol = lm.follow()

    def replay_q(words):
        # recover a value whose emission starts with the witness text
        from vf.slices import tokenize_string_branch

        w = words[0]
        for i in range(len(w), 1, -1):
            if w[i - 1] == '"' and _in_quoted_model(w[:i]):
                v, _ = tokenize_string_branch()(w[:i])
                return _replay_words([v])
        return False, "witness has no quoted prefix"

    qs.append({"name": "quoted/inhabited", "langs": [Q], "expect": "sat"})
    # earlier patterns (incl. the triple-quote pattern, over-approximated) do not fire on quoted text
    qs.append({"name": "quoted/no-earlier-pattern", "langs": [rx.inter(rx.cat(Q, fol), lm.pm_union(only_before="STRING"))], "replay": replay_q})
    # the single-quote STRING pattern (second STRING entry) matches the whole quoted text ...
    qs.append({"name": "quoted/STRING-matches-whole", "langs": [rx.minus(Q, full)], "replay": replay_q})
    # ... and L(STRING) is prefix-free, so whichever way the backtracking engine searches, the match is that text
    qs.append({"name": "STRING/prefix-free", "langs": [rx.inter(full, rx.cat(full, rx.plus(rx.SIGMA)))], "replay": lambda w: (False, "regex-only query")})
    # the first STRING entry is the triple-quote pattern, which must not match a canonical quoted text followed by
    # anything that can follow a value (it needs three quotes in a row)
    qs.append({"name": "quoted/not-triple", "langs": [rx.inter(rx.cat(Q, fol), rx.cat(rx.lit('"""'), rx.SIGMA_STAR))], "replay": replay_q})
    return qs


def _setup_slice():
    from vf.slices import tokenize_string_branch

    tokenize_string_branch()  # extract once, outside symbolic tracing


def _setup_lexer():
    from vf import stubs

    stubs.lexer_stubs()


# --- parser positions -------------------------------------------------------
def _tok(tt, value, line, col, raw=None):
    from octave_mcp.core.lexer import Token

    return Token(tt, value, line, col, None, raw)


def _position_tokens(pos: int, vt):
    """Token layout the real tokenizer produces (checked concretely by placeholders in validate()) for
    ===D=== / value at position pos / ===END===; vt = the value token."""
    from octave_mcp.core.lexer import TokenType as T

    t = [_tok(T.ENVELOPE_START, "D", 1, 1), _tok(T.NEWLINE, "\n", 1, 8)]
    if pos == 0:  # assignment
        t += [_tok(T.IDENTIFIER, "K", 2, 1), _tok(T.ASSIGN, "::", 2, 2), vt, _tok(T.NEWLINE, "\n", 2, 9)]
        end_line = 3
    elif pos == 1:  # META field
        t += [
            _tok(T.IDENTIFIER, "META", 2, 1),
            _tok(T.BLOCK, ":", 2, 5),
            _tok(T.NEWLINE, "\n", 2, 6),
            _tok(T.INDENT, 2, 3, 1),
            _tok(T.IDENTIFIER, "A", 3, 3),
            _tok(T.ASSIGN, "::", 3, 4),
            vt,
            _tok(T.NEWLINE, "\n", 3, 9),
        ]
        end_line = 4
    elif pos == 2:  # list item (2 items, single line)
        t += [
            _tok(T.IDENTIFIER, "K", 2, 1),
            _tok(T.ASSIGN, "::", 2, 2),
            _tok(T.LIST_START, "[", 2, 4),
            vt,
            _tok(T.COMMA, ",", 2, 9),
            _tok(T.IDENTIFIER, "x", 2, 10),
            _tok(T.LIST_END, "]", 2, 11),
            _tok(T.NEWLINE, "\n", 2, 12),
        ]
        end_line = 3
    else:  # inline-map value inside a (multi-line) list
        t += [
            _tok(T.IDENTIFIER, "K", 2, 1),
            _tok(T.ASSIGN, "::", 2, 2),
            _tok(T.LIST_START, "[", 2, 4),
            _tok(T.NEWLINE, "\n", 2, 5),
            _tok(T.INDENT, 2, 3, 1),
            _tok(T.IDENTIFIER, "A", 3, 3),
            _tok(T.ASSIGN, "::", 3, 4),
            vt,
            _tok(T.NEWLINE, "\n", 3, 9),
            _tok(T.LIST_END, "]", 4, 1),
            _tok(T.NEWLINE, "\n", 4, 2),
        ]
        end_line = 5
    t += [_tok(T.ENVELOPE_END, "END", end_line, 1), _tok(T.NEWLINE, "\n", end_line, 10), _tok(T.EOF, None, end_line + 1, 1)]
    return t


def _value_at(doc, pos: int):
    from octave_mcp.core.ast_nodes import Assignment, InlineMap, ListValue

    if pos == 1:
        if list(doc.meta.keys()) != ["A"] or doc.sections:
            return False, None
        return True, doc.meta["A"]
    if len(doc.sections) != 1 or not isinstance(doc.sections[0], Assignment) or doc.sections[0].key != "K":
        return False, None
    val = doc.sections[0].value
    if pos == 0:
        return True, val
    if not isinstance(val, ListValue):
        return False, None
    if pos == 2:
        if len(val.items) != 2 or val.items[1] != "x":
            return False, None
        return True, val.items[0]
    if len(val.items) != 1 or not isinstance(val.items[0], InlineMap) or list(val.items[0].pairs.keys()) != ["A"]:
        return False, None
    return True, val.items[0].pairs["A"]


def _p_string(v, pos, quoted):
    # a STRING token (quoted) or IDENTIFIER token (bare identifier text) with symbolic value at each position is
    # returned by the real parser as exactly that str
    from octave_mcp.core.lexer import TokenType as T
    from octave_mcp.core.parser import Parser

    if not quoted:
        if len(v) == 0 or v == "META" and pos == 1:
            return SKIP
        if "<" in v and v.endswith(">"):
            return SKIP  # annotation form: own lemma
    vt = _tok(T.STRING if quoted else T.IDENTIFIER, v, 3 if pos in (1, 3) else 2, 5)
    doc = Parser(_position_tokens(pos, vt), strict_structure=True).parse_document()
    ok, got = _value_at(doc, pos)
    if not ok:
        return VIOL
    if not isinstance(got, str):
        return VIOL
    return HELD if got == v else VIOL


def _mk_P_string(pos, n):
    def P_string(v: str, quoted: bool) -> int:
        """
        pre: len(v) <= N
        post: _ != 0
        """
        return _p_string(v, pos, quoted)

    P_string.__doc__ = P_string.__doc__.replace("N", str(n))
    return P_string


def _mk_P_annot(pos, n):
    def P_annot(v: str) -> int:
        """
        pre: len(v) <= N
        post: _ != 0
        """
        from octave_mcp.core.lexer import TokenType as T
        from octave_mcp.core.parser import Parser

        if not ("<" in v and v.endswith(">")):
            return SKIP
        vt = _tok(T.IDENTIFIER, v, 3 if pos in (1, 3) else 2, 5)
        doc = Parser(_position_tokens(pos, vt), strict_structure=True).parse_document()
        ok, got = _value_at(doc, pos)
        if not ok:
            return VIOL
        return HELD if isinstance(got, str) and got == v else VIOL

    P_annot.__doc__ = P_annot.__doc__.replace("N", str(n))
    return P_annot


def _mk_P_literal(pos):
    def P_literal(kind: int, n: int, x: float) -> int:
        """
        pre: 0 <= kind <= 4
        post: _ != 0
        """
        # NUMBER(int) / NUMBER(float) / BOOLEAN / NULL / VARIABLE tokens come back with value and type intact
        from octave_mcp.core.lexer import TokenType as T
        from octave_mcp.core.parser import Parser

        line = 3 if pos in (1, 3) else 2
        if kind == 0:
            vt, want = _tok(T.NUMBER, n, line, 5, "0"), n
        elif kind == 1:
            if x != x:
                return SKIP
            vt, want = _tok(T.NUMBER, x, line, 5, "0.0"), x
        elif kind == 2:
            b = n % 2 == 0
            vt, want = _tok(T.BOOLEAN, b, line, 5), b
        elif kind == 3:
            vt, want = _tok(T.NULL, None, line, 5), None
        else:
            vt, want = _tok(T.VARIABLE, "$a", line, 5), "$a"
        doc = Parser(_position_tokens(pos, vt), strict_structure=True).parse_document()
        ok, got = _value_at(doc, pos)
        if not ok:
            return VIOL
        if type(got) is not type(want):
            return VIOL
        return HELD if got == want else VIOL

    return P_literal


def _idlike(s):
    """Cheap stand-in for IDENTIFIER token text: ASCII letters and '_' (the parser inspects identifier text only
    for '<', '>', equality with META / constructor names and single-letter-ness)."""
    for c in s:
        o = ord(c)
        if o < 65 or o > 122 or (90 < o < 97 and o != 95):
            return False
    return True


def _ops():
    from octave_mcp.core.lexer import TokenType as T

    return [
        (T.FLOW, "\u2192"),
        (T.SYNTHESIS, "\u2295"),
        (T.CONCAT, "\u29fa"),
        (T.TENSION, "\u21cc"),
        (T.CONSTRAINT, "\u2227"),
        (T.ALTERNATIVE, "\u2228"),
        (T.AT, "@"),
    ]


def _mk_P_expr(pos, n):
    def P_expr(a: str, b: str, op: int) -> int:
        """
        pre: 1 <= len(a) <= N and 1 <= len(b) <= N and 0 <= op <= 6
        post: _ != 0
        """
        # ID op ID token triples (what the lexer yields for a bare expression value) parse back to the joined text
        from octave_mcp.core.lexer import TokenType as T
        from octave_mcp.core.parser import Parser

        if not (_idlike(a) and _idlike(b)):
            return SKIP  # IDENTIFIER tokens only carry identifier characters
        tt, sym = _ops()[op]
        if pos in (2, 3) and tt is T.CONSTRAINT:
            return SKIP  # [x∧y] inside brackets is the holographic route: C01.e
        line = 3 if pos in (1, 3) else 2
        toks = _position_tokens(pos, None)
        i = toks.index(None)
        toks[i : i + 1] = [_tok(T.IDENTIFIER, a, line, 5), _tok(tt, sym, line, 6), _tok(T.IDENTIFIER, b, line, 7)]
        if a == "META" and pos == 1:
            return SKIP
        doc = Parser(toks, strict_structure=True).parse_document()
        ok, got = _value_at(doc, pos)
        if not ok:
            return VIOL
        return HELD if isinstance(got, str) and got == a + sym + b else VIOL

    P_expr.__doc__ = P_expr.__doc__.replace("N", str(n))
    return P_expr


def W_normalize(kind: int, s: str, n: int, x: float) -> int:
    """
    pre: 0 <= kind <= 4 and len(s) <= 4
    post: _ != 0
    """
    # _normalize_value_for_ast / _apply_changes / _apply_mutations pass scalars through untouched (value and type)
    from octave_mcp.core.ast_nodes import Assignment, Document
    from octave_mcp.mcp import write as w

    v = [s, n, x, (n % 2 == 0), None][kind]
    if kind == 2 and x != x:
        return SKIP
    out = w._normalize_value_for_ast(v)
    if type(out) is not type(v) or out != v:
        return VIOL
    tool = w.WriteTool()
    doc = Document(name="D", meta={"M": 1}, sections=[Assignment(key="K", value="old")])
    tool._apply_changes(doc, {"K": v, "N": v, "META.A": v, "META": {"B": v}})
    tool._apply_mutations(doc, {"C": v})
    got = [doc.sections[0].value, doc.sections[1].value, doc.meta["A"], doc.meta["B"], doc.meta["C"]]
    for g in got:
        if type(g) is not type(v) or g != v:
            return VIOL
    return HELD


# ---------------------------------------------------------------------------
# RX obligations
# ---------------------------------------------------------------------------
def _real_roundtrip_fails(value, position="assign"):
    """Replay on the real code: emit a document holding `value`, parse it back strictly, compare value and type."""
    import unicodedata

    from octave_mcp.core.ast_nodes import Assignment, Document, InlineMap, ListValue
    from octave_mcp.core.emitter import emit
    from octave_mcp.core.parser import parse

    if position == "assign":
        d = Document(name="D", sections=[Assignment(key="K", value=value)])
    elif position == "list":
        d = Document(name="D", sections=[Assignment(key="K", value=ListValue(items=[value, "x"]))])
    elif position == "imap":
        d = Document(name="D", sections=[Assignment(key="K", value=ListValue(items=[InlineMap(pairs={"A": value})]))])
    else:
        d = Document(name="D", meta={"A": value})
    text = emit(d)
    try:
        d2 = parse(text)
    except Exception as e:  # noqa: BLE001
        return True, f"canonical text {text!r} rejected: {type(e).__name__}: {e}"
    try:
        if position == "assign":
            got = d2.sections[0].value
        elif position == "list":
            got = d2.sections[0].value.items[0]
        elif position == "imap":
            got = d2.sections[0].value.items[0].pairs["A"]
        else:
            got = d2.meta["A"]
    except Exception as e:  # noqa: BLE001
        return True, f"structure lost for {text!r}: {type(e).__name__}"
    want = unicodedata.normalize("NFC", value) if isinstance(value, str) else value
    if type(got) is not type(want) or got != want:
        return True, f"value {value!r} emitted as {text!r} read back as {got!r}"
    return False, f"value {value!r} round-trips"


def _replay_words(words):
    v = words[0]
    worst = (False, "")
    for p in ("assign", "list", "imap", "meta"):
        bad, text = _real_roundtrip_fails(v, p)
        if bad:
            return True, f"[{p}] {text}"
        worst = (False, text)
    return worst


def _bare_arm(name):
    from octave_mcp.core import emitter as em

    pat = {
        "ident": em.IDENTIFIER_PATTERN,
        "var": em.VARIABLE_PATTERN,
        "annot": em.ANNOTATION_PATTERN,
        "expr": em.EXPRESSION_PATTERN,
    }[name]
    lang = rx.full_lang(pat)
    # the needs_quotes gates that precede the pattern tests (tied to the code by L3)
    lang = rx.minus(lang, lm.reserved_exact())
    lang = rx.minus(lang, rx.contains(rx.chars("\n\t\r")))
    lead = getattr(em, "_RESERVED_LEAD_PATTERN", None)
    split = getattr(em, "_SEGMENT_SPLIT_PATTERN", None)
    if lead is not None and split is not None:
        sep = rx.fullmatch_lang(split)  # a single-character class
        seg_start = rx.alt(rx.EPS, rx.cat(rx.SIGMA_STAR, sep))
        # some segment is prefix-matched by the reserved-lead pattern; the segment ends at the next separator,
        # which the pattern's look-ahead treats like any other non-word character
        lang = rx.minus(lang, rx.cat(seg_start, rx.prefix_lang(lead)))
    return lang


def _excl_known(lang):
    if kf_active(PROP, "reserved-prefix"):
        # family: a segment that is a reserved word or starts with reserved word + [.-<]
        ops = rx.chars(lm.unicode_ops())
        seg_start = rx.alt(rx.EPS, rx.cat(rx.SIGMA_STAR, ops))
        bad_seg = rx.cat(lm.reserved_exact(), rx.alt(rx.EPS, rx.cat(rx.chars(".-<"), rx.SIGMA_STAR), rx.cat(ops, rx.SIGMA_STAR)))
        lang = rx.minus(lang, rx.cat(seg_start, bad_seg))
    if kf_active(PROP, "annotation-comma-empty"):
        lang = rx.minus(lang, rx.cat(rx.SIGMA_STAR, rx.lit("<"), rx.alt(rx.EPS, rx.contains(rx.lit(","))), rx.lit(">")))
    return lang


def safe_struct():
    """Lexer/parser-side language of bare value texts that come back as the same string:
    one scanner identifier (plain or NAME<qual>), a variable, ID (op ID)+ over the operator characters, or a colon path
    ID (':' ID)+ (parse_value re-joins both forms)."""
    ops = rx.chars(lm.unicode_ops())
    seg = lm.scan_ident()
    return rx.alt(
        lm.scan_ident(),
        lm.scan_annot(),
        rx.fullmatch_lang(lm.pattern_of("VARIABLE")),
        rx.cat(seg, rx.plus(rx.cat(ops, seg))),
        rx.cat(seg, rx.plus(rx.cat(rx.lit(":"), seg))),
    )


def build_bare():
    """BARE is derived from the live source of needs_quotes (vf/nqmodel.py); SAFE from the lexer tables."""
    from vf import nqmodel

    qs = []
    ops = lm.unicode_ops()
    bare = nqmodel.bare_language()
    dollar = rx.cat(rx.lit("$"), rx.SIGMA_STAR)
    bare_var = rx.inter(bare, dollar)
    bare_id = rx.minus(bare, dollar)
    sep = rx.chars(ops + ":")
    fol = lm.follow()
    pm_all = lm.pm_union()
    # a token pattern fires at the start of the value or of a later segment (right after an operator char or ':')
    # segment starts inside the value only (the text after the value - newline, comma, bracket, comment - is not ours)
    seg_start = rx.alt(rx.EPS, rx.cat(rx.star(rx.not_chars("\n,] ")), sep))
    pats = [(i, p, t, lm.pm(p, over_approx=True)) for i, p, t in lm.patterns() if t != "GRAMMAR_SENTINEL"]
    qs.append({"name": "bare/inhabited", "langs": [bare_id], "expect": "sat"})
    twosep = rx.cat(rx.SIGMA_STAR, sep, sep, rx.SIGMA_STAR)
    for bi, (label, branch) in enumerate(nqmodel.bare_branches()):
        b_id = rx.minus(branch, dollar)
        tag = f"branch{bi}[{label}]"
        qs.append({"name": f"bare/{tag}/structure-the-reader-rejoins", "langs": [rx.minus(b_id, safe_struct())], "replay": _replay_words, "timeout_ms": 300000})
        for i, ptxt, tname, plang in pats:
            qs.append({"name": f"bare/{tag}/pattern#{i}({tname})-never-fires-at-a-segment-start", "langs": [rx.inter(rx.cat(b_id, fol), rx.cat(seg_start, plang))], "replay": _replay_words_strip_follow, "timeout_ms": 240000})
    # scanner must stop at the end of the value: the next char is not an identifier body char, '<', '{' or '%'
    qs.append({"name": "follow/stops-scanner", "langs": [rx.inter(lm.follow(), rx.cat(rx.alt(lm.ID_BODY(), rx.chars("<{%")), rx.SIGMA_STAR))], "replay": lambda w: (False, "model-only query")})
    # variables
    qs.append({"name": "var/inhabited", "langs": [bare_var], "expect": "sat"})
    qs.append({"name": "var/pattern-matches-whole", "langs": [rx.minus(bare_var, rx.fullmatch_lang(lm.pattern_of("VARIABLE")))], "replay": _replay_words})
    qs.append({"name": "var/no-earlier-pattern", "langs": [rx.inter(rx.cat(bare_var, fol), lm.pm_union(only_before="VARIABLE"))], "replay": _replay_words_strip_follow})
    qs.append({"name": "var/match-cannot-extend", "langs": [rx.inter(fol, rx.cat(rx.chars("ABCDEFGHIJKLMNOPQRSTUVWXYZabcdefghijklmnopqrstuvwxyz0123456789_:"), rx.SIGMA_STAR))], "replay": lambda w: (False, "model-only query")})
    # every operator char of the emitter's table is matched by some token pattern as a single-character token
    fulls = []
    for i, p, t in lm.patterns():
        try:
            fulls.append(rx.fullmatch_lang(p))
        except rx.Unsupported:
            pass
    qs.append({"name": "expr/every-operator-char-has-a-token-pattern", "langs": [rx.minus(rx.chars(ops), rx.alt(*fulls))], "replay": lambda w: _replay_words(["A" + w[0] + "B"])})
    return qs


def validate_bare_model():
    """Translator validation (not the deciding step): the AST-derived BARE language agrees with the real needs_quotes on
    every string of length <= 3 over a 13-character alphabet and on the repository's own test strings."""
    import itertools

    from octave_mcp.core import emitter as em
    from vf import nqmodel

    bare = nqmodel.bare_language()
    alpha = ["a", "v", "s", "T", "_", ".", "-", "0", "<", ">", "$", ":", "\u2192", " ", ","]
    words = [""] + ["".join(p) for n in (1, 2, 3) for p in itertools.product(alpha, repeat=n)]
    words += ["true", "false", "null", "vs", "true.x", "vs-a", "A\u2192null", "a:null", "NEVER<A,B>", "FOO<>", "$1:name", "A\u2295B", "a b", "x\ny", "1.0.0", "OCTAVE"]
    comp_ = rx.Compiler([bare] + [rx.lit(w) for w in set("".join(words))])
    import z3

    bad = []
    for w in words:
        sol = z3.Solver()
        sol.add(z3.InRe(z3.StringVal(w), comp_.c(bare)))
        in_model = str(sol.check()) == "sat"
        if in_model == em.needs_quotes(w):
            bad.append(w)
    return len(words), bad


def _fullmatches(pattern_text, s):
    try:
        return rx.member(s, rx.fullmatch_lang(pattern_text))
    except rx.Unsupported:
        return False


def _replay_words_strip_follow(words):
    """Witness is value+follow text; recover the value by trying every prefix that needs no quotes."""
    from octave_mcp.core.emitter import needs_quotes

    w = words[0]
    last = (False, "no bare prefix reproduces")
    for i in range(len(w), 0, -1):
        v = w[:i]
        if not needs_quotes(v):
            bad, text = _replay_words([v])
            if bad:
                return True, text
            last = (False, text)
    return last


INT_TEXT = rx.cat(rx.opt(rx.lit("-")), rx.alt(rx.lit("0"), rx.cat(rx.chars("123456789"), rx.star(rx.chars("0123456789")))))
_D = rx.chars("0123456789")
_NZ = rx.chars("123456789")
_FRAC = rx.alt(rx.lit("0"), rx.cat(rx.star(_D), _NZ))  # repr never pads the fraction with trailing zeros
_EXP_NEG = rx.alt(rx.cat(rx.lit("0"), rx.chars("56789")), rx.cat(_NZ, _D), rx.cat(_NZ, _D, _D))  # e-05 .. e-324
_EXP_POS = rx.alt(rx.cat(rx.lit("1"), rx.chars("6789")), rx.cat(rx.chars("23456789"), _D), rx.cat(rx.chars("123"), _D, _D))  # e+16 .. e+308
FLOAT_TEXT = rx.cat(
    rx.opt(rx.lit("-")),
    rx.alt(
        rx.cat(rx.alt(rx.lit("0"), rx.cat(_NZ, rx.star(_D))), rx.lit("."), _FRAC),
        rx.cat(_NZ, rx.opt(rx.cat(rx.lit("."), rx.cat(rx.star(_D), _NZ))), rx.lit("e"), rx.alt(rx.cat(rx.lit("-"), _EXP_NEG), rx.cat(rx.lit("+"), _EXP_POS))),
    ),
)


def build_literals():
    qs = []
    number = lm.pattern_of("NUMBER")
    before_number = lm.pm_union(only_before="NUMBER")
    fol = lm.follow()

    def replay_num(words):
        txt = words[0]
        for i in range(len(txt), 0, -1):
            try:
                v = int(txt[:i])
            except ValueError:
                try:
                    v = float(txt[:i])
                except ValueError:
                    continue
            if str(v) == txt[:i]:
                bad, text = _replay_words([v])
                if bad:
                    return True, text
        return False, "no numeric prefix whose str() is the witness fails"

    for name, lang in (("int", INT_TEXT), ("float", FLOAT_TEXT)):
        qs.append({"name": f"{name}/inhabited", "langs": [lang], "expect": "sat"})
        qs.append({"name": f"{name}/no-earlier-pattern", "langs": [rx.inter(rx.cat(lang, fol), before_number)], "replay": replay_num})
        qs.append({"name": f"{name}/NUMBER-matches-whole", "langs": [rx.minus(lang, rx.fullmatch_lang(number))], "replay": replay_num})
    # NUMBER cannot extend into what follows a value
    qs.append(
        {
            "name": "number/match-cannot-extend",
            "langs": [rx.inter(fol, rx.cat(rx.alt(rx.cls(rx.cat_ranges("digit")), rx.chars(".eE+-")), rx.SIGMA_STAR))],
            "replay": lambda w: (False, "model-only query"),
        }
    )
    # int text never takes the float branch ('.' or 'e'), float text always does
    qs.append({"name": "int/not-float-branch", "langs": [rx.inter(INT_TEXT, rx.contains(rx.chars(".eE")))], "replay": replay_num})
    qs.append({"name": "float/float-branch", "langs": [rx.minus(FLOAT_TEXT, rx.contains(rx.chars(".eE")))], "replay": replay_num})
    # true / false / null: their own pattern is the first to fire and matches the whole word
    for word, tname in (("true", "BOOLEAN"), ("false", "BOOLEAN"), ("null", "NULL")):
        idx = [i for i, p, t in lm.patterns() if t == tname and rx.member(word, rx.prefix_lang(p))][0]
        earlier = rx.alt(*[lm.pm(p, over_approx=True) for i, p, t in lm.patterns() if i < idx and t != "GRAMMAR_SENTINEL"])
        val = {"true": True, "false": False, "null": None}[word]
        qs.append(
            {
                "name": f"{word}/no-earlier-pattern",
                "langs": [rx.inter(rx.cat(rx.lit(word), fol), earlier)],
                "replay": lambda w, val=val: _replay_words([val]),
            }
        )
        qs.append(
            {
                "name": f"{word}/own-pattern-fires",
                "langs": [rx.minus(rx.cat(rx.lit(word), fol), rx.prefix_lang(lm.patterns()[idx][1]))],
                "replay": lambda w, val=val: _replay_words([val]),
            }
        )
    return qs


def replay_rx(ob_id, query, words):
    for build in (build_bare, build_literals, build_quoted):
        for q in build():
            if q["name"] == query and "replay" in q:
                return q["replay"](words)
    return False, "query not found"


# ---------------------------------------------------------------------------
def witness_ob():
    """Concrete re-confirmation of listed findings that lie outside the symbolic bounds (NFC-unstable input, file I/O)."""

    def run(tier):
        import asyncio
        import os
        import tempfile

        res = {"engine": "xh", "verdict": "confirmed", "paths": 2, "queries": 0, "solver_s": 0.0, "known_findings": [], "replays": [], "reach_witnessed": True}
        bad, text = _real_roundtrip_fails("\n\u0301")
        if bad:
            if kf_active(PROP, "nfc-composes-escape-letter"):
                res["known_findings"].append("nfc-composes-escape-letter: value LF+U+0301 is written as \\n + U+0301 and read back as backslash + U+0144 (NFC runs on the escaped text)")
            else:
                res["verdict"] = "violated"
                res["detail"] = text
        from octave_mcp.core.parser import parse
        from octave_mcp.mcp.write import WriteTool

        d = tempfile.mkdtemp()
        pth = os.path.join(d, "x.oct.md")
        try:
            with open(pth, "w") as f:
                f.write("===D===\nK::1\n===END===\n")
            r = asyncio.run(WriteTool().execute(target_path=pth, changes={"K": "a\rb"}))
            with open(pth, encoding="utf-8") as f:
                got = parse(f.read()).sections[0].value
            if r.get("status") == "success" and got != "a\rb":
                if kf_active(PROP, "raw-cr-through-file"):
                    res["known_findings"].append("raw-cr-through-file: octave_write(changes={K: 'a\\rb'}) stores a raw CR; reading the file back (text mode) yields 'a\\nb'")
                else:
                    res["verdict"] = "violated"
                    res["detail"] = f"CR value read back from file as {got!r}"
        finally:
            try:
                os.remove(pth)
                os.rmdir(d)
            except OSError:
                pass
        return res

    return {"id": "W.listed-finding-witnesses", "engine": "xh", "timeout": 120, "bound": "two concrete witnesses", "functions": ["emitter.emit_value", "lexer.tokenize (NFC then un-escape)", "mcp.write.WriteTool.execute"], "run": run}


def model_validation_ob():
    def run(tier):
        n, bad = validate_bare_model()
        res = {"engine": "rx", "paths": 0, "queries": n, "solver_s": 0.0, "known_findings": [], "replays": [], "reach_witnessed": True, "traces_validated_against_impl": n}
        if bad:
            res["verdict"] = "inconclusive"
            res["detail"] = f"AST-derived model of needs_quotes disagrees with the real function on {len(bad)} of {n} strings, e.g. {bad[:5]!r}: translator does not understand the current source"
        else:
            res["verdict"] = "confirmed"
        return res

    return {"id": "L3.needs_quotes-model-validation", "engine": "rx", "timeout": 600, "bound": "translator validation: all strings <= 3 chars over a 15-char alphabet + named cases, real needs_quotes vs AST-derived language", "functions": ["emitter.needs_quotes (source -> regular language, vf/nqmodel.py)"], "run": run}


def obligations(tier):
    thorough = tier == "thorough"
    n3 = 4 if thorough else 3
    obs = [
        model_validation_ob(),
        witness_ob(),
        rx_ob(
            PROP,
            "RX.bare-arms-relex",
            build_bare,
            bound="all strings of any length over U+0000..U+2FFFF for which needs_quotes returns False (language derived from its live source)",
            functions=["emitter.IDENTIFIER_PATTERN", "emitter.ANNOTATION_PATTERN", "emitter.EXPRESSION_PATTERN", "emitter.VARIABLE_PATTERN", "lexer.TOKEN_PATTERNS", "lexer._is_valid_identifier_start", "lexer._is_valid_identifier_char"],
        ),
        rx_ob(
            PROP,
            "RX.numbers-and-literals-relex",
            build_literals,
            bound="all decimal int texts and all finite repr(float) texts of any length; true/false/null",
            functions=["lexer.TOKEN_PATTERNS", "emitter.emit_value (str(int|float), literals)"],
        ),
    ]
    lexf = ["emitter.emit_assignment", "emitter.emit_value", "emitter._force_quote_inline_map_value", "emitter.needs_quotes", "lexer.tokenize"]
    nb = 4 if thorough else 3
    obs += [
    ]
    for aq, kname in ((False, "K"), (True, "PATTERN")):
        n_b = nb if not aq else nb - 1
        obs += [
            xh_ob(PROP, f"L4b.escape-then-unescape-is-identity[{kname}]", _mk_L4b(n_b, aq), replay=_mk_L4b_replay(aq), timeout=2400 if thorough else 400,
                  bound=(f"all strings ' '+v, |v| <= {n_b}, any character (leading space forces quoting)" if not aq else f"all strings v, |v| <= {n_b}, key PATTERN (always quoted)"),
                  functions=lexf + ["lexer.tokenize[STRING branch, AST slice]"], setup=_setup_slice),
            xh_ob(PROP, f"L4c.quoted-text-in-model-language[{kname}]", _mk_L4c(nb, aq), replay=(lambda v, aq=aq: L4b_replay(v, aq)), timeout=2400 if thorough else 400,
                  bound=f"all strings v, |v| <= {nb}, any character; key {kname}", functions=lexf),
        ]
    obs += [
        rx_ob(PROP, "RX.quoted-text-relex", build_quoted, bound="all quoted texts of any length", functions=["lexer.TOKEN_PATTERNS (STRING entries and everything before them)"]),
        xh_ob(PROP, "L4a.quoted-roundtrip-through-whole-tokenizer", _mk_L4(1, "K"), timeout=300,
              bound="all strings v, |v| <= 1, any character, through the complete tokenize()", functions=lexf + ["lexer._normalize_with_fence_detection"],
              stubs=["NFC fragment stub", "error message formatting elided"], setup=_setup_lexer),
    ]
    if thorough:
        for cname, pre in (("backslash", "v[0] == chr(92)"), ("quote", "v[0] == chr(34)"), ("control", "ord(v[0]) < 32"), ("other", "ord(v[0]) >= 32 and v[0] != chr(92) and v[0] != chr(34)")):
            f = _mk_L4(2, "K")
            f.__doc__ = f.__doc__.replace("pre: len(v) <= 2", "pre: len(v) == 2 and " + pre)
            obs.append(xh_ob(PROP, f"L4a.whole-tokenizer-len2[{cname}]", f, timeout=3000, tiers=("thorough",),
                             bound=f"all strings v, |v| == 2, first char class {cname}", functions=lexf,
                             stubs=["NFC fragment stub", "error message formatting elided"], setup=_setup_lexer))
    obs += [
    ]
    POS = ["assignment", "META-field", "list-item", "inline-map-value"]
    pf = ["parser.Parser.parse_document", "parse_meta_block", "parse_section", "parse_value", "parse_list", "parse_list_item", "parse_flow_expression"]
    for pos, pname in enumerate(POS):
        ns, na, ne = (7, 7, 3) if thorough else (5, 5, 2)
        obs += [
            xh_ob(PROP, f"P.string-token[{pname}]", _mk_P_string(pos, ns), timeout=600 if thorough else 200, bound=f"STRING and IDENTIFIER token with any value |v| <= {ns}", functions=pf),
            xh_ob(PROP, f"P.annotation-token[{pname}]", _mk_P_annot(pos, na), timeout=600 if thorough else 200, bound=f"IDENTIFIER token, |v| <= {na}, v contains '<' and ends with '>'", functions=pf),
            xh_ob(PROP, f"P.literal-tokens[{pname}]", _mk_P_literal(pos), timeout=200, bound="NUMBER(any int) / NUMBER(any non-NaN float) / BOOLEAN / NULL / VARIABLE token", functions=pf),
            xh_ob(PROP, f"P.expression-tokens[{pname}]", _mk_P_expr(pos, ne), timeout=900 if thorough else 200, bound=f"ID op ID, |a|,|b| <= {ne}, all 7 operators", functions=pf),
        ]
    obs += [
        xh_ob(PROP, "W.write-tool-passes-scalars-through", W_normalize, timeout=200, bound="str |s|<=4 / any int / any float / bool / None through _normalize_value_for_ast, _apply_changes (top-level, new key, META.X, META{}) and _apply_mutations", functions=["write._normalize_value_for_ast", "WriteTool._apply_changes", "WriteTool._apply_mutations"]),
    ]
    return select(obs, tier)
