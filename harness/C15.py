"""C15 - a seal verifies on the sealed content and on nothing else.

Tamper evidence reduces to `emit` being injective on content.  XH: emit_value injectivity on symbolic scalars (value AND
type); seal/verify on documents with every single-site mutation chosen by the solver from the mutation catalogue
(replace/insert/delete/move a leaf or node, envelope name, META field, frontmatter, one hash character); in-memory,
after text round trip through the real reader, after re-sealing and after cosmetic respelling.
"""
from __future__ import annotations

from vf.ob import HELD, SKIP, VIOL, pick, pickb, rx_ob, select, xh_ob

PROP = "C15"
META = {
    "explanation": "CrossHair: symbolic injectivity lemma for emit_value; solver-indexed single-site mutations of sealed documents through the real sealer, emitter and reader (real SHA-256)",
    "assumptions": ["SHA-256 collision freedom", "comments are not part of the sealed content the property lists"],
}


def build_injective():
    """emit_value is injective on scalars: the texts of different kinds are pairwise disjoint regular languages
    (bare strings from the live needs_quotes source; quoted strings; int / finite float texts; true/false/null), a bare
    string is its own text, and quoting is injective because un-escaping inverts it (C04 L4b)."""
    from harness.C04 import FLOAT_TEXT, INT_TEXT, quoted_lang
    from vf import nqmodel, rx

    bare = nqmodel.bare_language()
    words = rx.alt(rx.lit("true"), rx.lit("false"), rx.lit("null"))
    quoted = quoted_lang()
    kinds = {"bare-string": bare, "quoted-string": quoted, "int": INT_TEXT, "float": FLOAT_TEXT, "literal-word": words,
             "list-or-map": rx.cat(rx.lit("["), rx.SIGMA_STAR), "literal-zone": rx.cat(rx.lit("`"), rx.SIGMA_STAR)}

    def replay(wds):
        # two different scalars with the same emission?
        from octave_mcp.core.emitter import emit_value

        t = wds[0]
        cands = [t, None, True, False]
        for conv in (int, float):
            try:
                cands.append(conv(t))
            except ValueError:
                pass
        hits = [c for c in cands if emit_value(c) == t]
        distinct = []
        for h in hits:
            if not any(type(h) is type(x) and h == x for x in distinct):
                distinct.append(h)
        return len(distinct) > 1, f"text {t!r} is the emission of {distinct!r}"

    qs = []
    names = list(kinds)
    for i, a in enumerate(names):
        qs.append({"name": f"{a}/inhabited", "langs": [kinds[a]], "expect": "sat"})
        for b in names[i + 1 :]:
            qs.append({"name": f"{a}-vs-{b}/disjoint", "langs": [rx.inter(kinds[a], kinds[b])], "replay": replay})
    return qs


def replay_rx(ob_id, query, words):
    for q in build_injective():
        if q["name"] == query and "replay" in q:
            return q["replay"](words)
    return False, "query not found"


def _docs():
    from octave_mcp.core.ast_nodes import Assignment, Block, Document, InlineMap, ListValue, Section

    def d0():
        return Document(name="DOC", meta={"TYPE": "T", "V": 2}, has_separator=True, raw_frontmatter="title: x", sections=[
            Assignment(key="A", value="text value"), Assignment(key="N", value=1), Assignment(key="B", value=True),
            Block(key="BLK", children=[Assignment(key="X", value=ListValue(items=["a", "b", "c"])), Block(key="IN", children=[Assignment(key="Y", value=None)])]),
            Section(section_id="1", key="SEC", annotation="note", children=[Assignment(key="M", value=ListValue(items=[InlineMap(pairs={"k": "v"})]))]),
        ])

    def d1():
        return Document(name="D2", sections=[Assignment(key="ONLY", value="1")])

    def d2():
        from harness import docmodel as dm

        return dm.shape_rich()  # every value kind and position, all four comment kinds incl. document-trailing comments

    def d3():
        from harness import docmodel as dm

        return dm.shape_deep()

    return [d0, d1, d2, d3]


def _mutations(doc):
    """Single-site content mutations: list of (label, function mutating the document in place)."""
    from octave_mcp.core.ast_nodes import Assignment, Block

    muts = []

    def leaves(nodes, acc):
        for n in nodes:
            if isinstance(n, Assignment):
                acc.append(n)
            elif hasattr(n, "children"):
                leaves(n.children, acc)
        return acc

    def containers(nodes, acc):
        for n in nodes:
            if hasattr(n, "children"):
                acc.append(n)
                containers(n.children, acc)
        return acc

    for i, leaf in enumerate(leaves([s for s in doc.sections if getattr(s, "key", "") != "SEAL"], [])):
        for label, new in (("str", "CHANGED"), ("typed", str(leaf.value) if not isinstance(leaf.value, str) else 7), ("null", None if leaf.value is not None else "null"), ("empty", "")):
            if new != leaf.value or type(new) is not type(leaf.value):
                muts.append((f"leaf{i}:{leaf.key}->{label}", lambda d, i=i, new=new: setattr(leaves([s for s in d.sections if getattr(s, "key", "") != "SEAL"], [])[i], "value", new)))
        muts.append((f"leaf{i}:rename", lambda d, i=i: setattr(leaves([s for s in d.sections if getattr(s, "key", "") != "SEAL"], [])[i], "key", "RENAMED")))
    muts.append(("insert-top", lambda d: d.sections.insert(0, Assignment(key="NEW", value=1))))
    muts.append(("delete-top", lambda d: d.sections.pop(0)))
    if len([s for s in doc.sections if getattr(s, "key", "") != "SEAL"]) >= 2:
        muts.append(("swap-top", lambda d: d.sections.__setitem__(slice(0, 2), [d.sections[1], d.sections[0]])))
    for ci, c in enumerate(containers(doc.sections, [])):
        if getattr(c, "key", "") == "SEAL":
            continue
        muts.append((f"container{ci}:insert-child", lambda d, ci=ci: containers(d.sections, [])[ci].children.append(Assignment(key="NEWC", value=1))))
        if c.children:
            muts.append((f"container{ci}:delete-child", lambda d, ci=ci: containers(d.sections, [])[ci].children.pop(0)))
        muts.append((f"container{ci}:rename", lambda d, ci=ci: setattr(containers(d.sections, [])[ci], "key", "RENAMEDC")))
    if any(isinstance(s, Block) for s in doc.sections):
        def move(d):
            first = d.sections.pop(0)
            [s for s in d.sections if isinstance(s, Block)][0].children.insert(0, first)
        muts.append(("move-top-into-block", move))
    # pure re-nesting: the order of lines stays, only the depth of one node changes
    def real(d):
        return [x for x in d.sections if getattr(x, "key", "") != "SEAL"]

    for ci, c in enumerate(containers(real(doc), [])):
        if c.children:
            def lift_last(d, ci=ci):
                # last child of container ci becomes its next sibling (one level up)
                def walk(nodes):
                    seen = [0]

                    def rec(parent_list):
                        for idx, n in enumerate(list(parent_list)):
                            if hasattr(n, "children") and getattr(n, "key", "") != "SEAL":
                                if seen[0] == ci:
                                    child = n.children.pop()
                                    parent_list.insert(idx + 1, child)
                                    return True
                                seen[0] += 1
                                if rec(n.children):
                                    return True
                        return False

                    return rec(nodes)

                walk(d.sections)

            muts.append((f"container{ci}:lift-last-child", lift_last))
    tops = real(doc)
    for ti in range(1, len(tops)):
        if hasattr(tops[ti - 1], "children") and not hasattr(tops[ti], "section_id"):
            def sink(d, ti=ti):
                # top-level node ti becomes the last child of the container just before it (one level down)
                r = real(d)
                node = r[ti]
                d.sections.remove(node)
                tgt = r[ti - 1]
                while tgt.children and hasattr(tgt.children[-1], "children"):
                    tgt = tgt.children[-1]
                tgt.children.append(node)

            muts.append((f"top{ti}:sink-into-previous-container", sink))
    muts.append(("envelope-name", lambda d: setattr(d, "name", d.name + "X")))
    muts.append(("meta-add", lambda d: d.meta.__setitem__("EXTRA", 1)))
    if doc.meta:
        k = list(doc.meta)[0]
        muts.append(("meta-change", lambda d, k=k: d.meta.__setitem__(k, "OTHER")))
        muts.append(("meta-delete", lambda d, k=k: d.meta.pop(k)))
    muts.append(("frontmatter", lambda d: setattr(d, "raw_frontmatter", (d.raw_frontmatter or "") + "\nmore: y")))
    muts.append(("separator", lambda d: setattr(d, "has_separator", not d.has_separator)))

    def flip_hash(d):
        from octave_mcp.core.ast_nodes import Section

        sec = [s for s in d.sections if isinstance(s, Section) and s.key == "SEAL"][0]
        h = [c for c in sec.children if c.key == "HASH"][0]
        h.value = ("0" if h.value[0] != "0" else "1") + h.value[1:]

    muts.append(("hash-character", flip_hash))
    return muts


def T_tamper(di: int, mi: int, via_text: bool) -> int:
    """
    pre: di == DIFIX and 0 <= mi <= 150
    post: _ != 0
    """
    from crosshair.core import realize
    from crosshair.tracers import NoTracing
    from octave_mcp.core import sealer
    from octave_mcp.core.emitter import emit
    from octave_mcp.core.parser import parse

    di, mi, via_text = pick(di, 4), pick(mi, 151), pickb(via_text)
    with NoTracing():  # concrete from here: the solver chose document, mutation and route
        doc = _docs()[di]()
        if sealer.verify_seal(doc).status is not sealer.SealStatus.NO_SEAL:
            return VIOL
        sealed = sealer.seal_document(doc)
        if sealer.verify_seal(sealed).status is not sealer.SealStatus.VERIFIED:
            return VIOL
        again = sealer.seal_document(sealed)
        if sealer.extract_seal(again) != sealer.extract_seal(sealed) or emit(again) != emit(sealed):
            return VIOL  # sealing again gives the same seal
        if via_text:
            sealed = parse(emit(sealed))  # written out and read back
            if sealer.verify_seal(sealed).status is not sealer.SealStatus.VERIFIED:
                return VIOL
        muts = _mutations(sealed)
        if mi >= len(muts):
            return SKIP
        label, fn = muts[mi]
        before = emit(sealer._remove_seal_section(sealed))
        try:
            fn(sealed)
        except (IndexError, AttributeError, KeyError):
            return SKIP  # this catalogue entry does not apply to this document shape
        if label.startswith(("container", "top", "move", "swap")) and emit(sealer._remove_seal_section(sealed)) == before:
            return SKIP  # a structural catalogue entry that is the identity on this document (e.g. swapping equal nodes)
        if via_text:
            try:
                sealed = parse(emit(sealed))
            except Exception:  # noqa: BLE001
                return SKIP  # a mutation the reader refuses is not a verification question
        st = sealer.verify_seal(sealed).status
        return HELD if st is sealer.SealStatus.INVALID else VIOL


def H_hash_distinguishes_depth_and_text(k1: int, k2: int, ai: int, bi: int, via_verify: bool) -> int:
    """
    pre: 0 <= k1 <= 3 and 0 <= k2 <= 3 and 0 <= ai <= 5 and 0 <= bi <= 5 and not via_verify
    post: _ != 0
    """
    # what is fed to the hash function determines depth and text of every line: for the family of canonical texts
    #   "B:" / <2*k spaces><text>  the hashed bytes of (k1, a) and (k2, b) are equal only if k1 == k2 and a == b.
    # hashlib is replaced in the sealer's namespace by a recording stub (injective by construction), so this is a
    # statement about what the sealer does to the content BEFORE hashing (trimming, re-indenting, normalising).
    from types import SimpleNamespace

    from crosshair.core import realize
    from octave_mcp.core import sealer

    k1, k2, ai, bi = pick(k1, 4), pick(k2, 4), pick(ai, 6), pick(bi, 6)
    pool = ["", "x", " ", "\t", "x ", "\u212b"]
    a, b = pool[ai], pool[bi]
    rec = []

    class H:
        def __init__(self, data=b""):
            rec.append(data)

        def hexdigest(self):
            return "0" * 64

    if "\n" in a or "\n" in b or "\r" in a or "\r" in b:
        return SKIP
    real = sealer.hashlib
    sealer.hashlib = SimpleNamespace(sha256=H)
    try:
        t1 = "===D===\nB:\n" + "  " * k1 + "K" + a + "::1\n===END===\n"
        t2 = "===D===\nB:\n" + "  " * k2 + "K" + b + "::1\n===END===\n"
        sealer.compute_seal(t1, None)
        sealer.compute_seal(t2, None)
    finally:
        sealer.hashlib = real
    if len(rec) != 2:
        return VIOL
    same_in = k1 == k2 and a == b
    same_hashed = rec[0] == rec[1]
    return HELD if same_in == same_hashed else VIOL


def _tamper_for(di):
    import types

    f = types.FunctionType(T_tamper.__code__, T_tamper.__globals__, "T_tamper", None, T_tamper.__closure__)
    f.__doc__ = T_tamper.__doc__.replace("DIFIX", str(di))
    f.__annotations__ = dict(T_tamper.__annotations__)
    return f


RESPELL = [
    lambda t: t,
    lambda t: t.replace("===END===\n", ""),
    lambda t: t.replace("A::", "A :: "),
    lambda t: t.replace("\n  ", "\n    "),
    lambda t: t.replace("[a,b,c]", "[ a , b , c ]").replace("[\n", "[\n\n"),
    lambda t: t.replace("\nN::1", "\n\n\nN::1"),
    lambda t: t.replace('"text value"', '"""text value"""'),
]


def T_cosmetic(ri: int) -> int:
    """
    pre: 0 <= ri <= 6
    post: _ != 0
    """
    from crosshair.core import realize
    from crosshair.tracers import NoTracing
    from octave_mcp.core import sealer
    from octave_mcp.core.emitter import emit
    from octave_mcp.core.parser import parse_with_warnings

    ri = pick(ri, 7)
    with NoTracing():
        text = emit(sealer.seal_document(_docs()[0]()))
        doc, _ = parse_with_warnings(RESPELL[ri](text))
        return HELD if sealer.verify_seal(doc).status is sealer.SealStatus.VERIFIED else VIOL


def obligations(tier):
    th = tier == "thorough"
    sf = ["core.sealer.seal_document", "verify_seal", "extract_seal", "_remove_seal_section", "compute_seal", "emitter.emit"]
    obs = [
        rx_ob(PROP, "RX.scalar-emissions-pairwise-disjoint", build_injective, bound="all texts of any length: bare strings (language derived from the live needs_quotes), quoted strings, int and finite float texts, true/false/null, bracket and fence openers", functions=["emitter.emit_value", "emitter.needs_quotes"]),
    ] + [
        xh_ob(PROP, f"T.every-single-site-mutation-invalidates[doc{di}]", _tamper_for(di), timeout=1500, bound="4 documents (both content models of docmodel: every value kind and position, all comment kinds; rich: META, frontmatter, separator, nested blocks, section with annotation, lists, inline map; minimal) x every mutation of the catalogue (4 value replacements incl. type-only change and rename per leaf; insert/delete/swap/move nodes; pure re-nesting that keeps the line order (last child lifted one level, top-level node sunk into the preceding container); per-container insert/delete/rename; envelope name; META add/change/delete; frontmatter; separator; one hash character) x in memory / through emit+parse", functions=sf + ["parser.parse"])
        for di in range(4)
    ] + [
        xh_ob(PROP, "H.hashed-bytes-determine-depth-and-text", H_hash_distinguishes_depth_and_text, timeout=900, bound="two canonical texts 'B:' + one child line at solver-chosen depth 0..3 and key suffix from a 6-text pool (empty, letter, space, tab, trailing space, non-NFC character): one concrete run per choice; hashlib replaced by a recording stub", functions=["core.sealer.compute_seal"], stubs=["sealer.hashlib.sha256 -> recording stub (injective by construction)"]),
        xh_ob(PROP, "T.cosmetic-respelling-still-verifies", T_cosmetic, timeout=600, bound="7 cosmetic rewrites of the sealed text (missing END, spaces around ::, 4-space indentation, spaced/blank-lined lists, blank lines, triple quotes)", functions=sf + ["parser.parse_with_warnings"]),
    ]
    return select(obs, tier)
