"""C15 - a seal verifies on the sealed content and on nothing else.

Tamper evidence reduces to `emit` being injective on content.  XH: emit_value injectivity on symbolic scalars (value AND
type); seal/verify on documents with every single-site mutation chosen by the solver from the mutation catalogue
(replace/insert/delete/move a leaf or node, envelope name, META field, frontmatter, one hash character); in-memory,
after text round trip through the real reader, after re-sealing and after cosmetic respelling.
"""
from __future__ import annotations

from vf.ob import HELD, SKIP, VIOL, rx_ob, select, xh_ob

PROP = "C15"
META = {
    "explanation": "CrossHair: symbolic injectivity lemma for emit_value; solver-indexed single-site mutations of sealed documents through the real sealer, emitter and reader (real SHA-256)",
    "assumptions": ["SHA-256 collision freedom", "comments are not part of the sealed content the property lists"],
}


def build_injective():
    """emit_value is injective on scalars: the texts of different kinds are pairwise disjoint regular languages
    (bare strings from the live needs_quotes source; quoted strings; int / finite float texts; true/false/null), a bare
    string is its own text, and quoting is injective because un-escaping inverts it (C04 L4b)."""
    from harness.C04 import FLOAT_TEXT, INT_TEXT, quoted_lang
    from vf import nqmodel, rx

    bare = nqmodel.bare_language()
    words = rx.alt(rx.lit("true"), rx.lit("false"), rx.lit("null"))
    quoted = quoted_lang()
    kinds = {"bare-string": bare, "quoted-string": quoted, "int": INT_TEXT, "float": FLOAT_TEXT, "literal-word": words,
             "list-or-map": rx.cat(rx.lit("["), rx.SIGMA_STAR), "literal-zone": rx.cat(rx.lit("`"), rx.SIGMA_STAR)}

    def replay(wds):
        # two different scalars with the same emission?
        from octave_mcp.core.emitter import emit_value

        t = wds[0]
        cands = [t, None, True, False]
        for conv in (int, float):
            try:
                cands.append(conv(t))
            except ValueError:
                pass
        hits = [c for c in cands if emit_value(c) == t]
        distinct = []
        for h in hits:
            if not any(type(h) is type(x) and h == x for x in distinct):
                distinct.append(h)
        return len(distinct) > 1, f"text {t!r} is the emission of {distinct!r}"

    qs = []
    names = list(kinds)
    for i, a in enumerate(names):
        qs.append({"name": f"{a}/inhabited", "langs": [kinds[a]], "expect": "sat"})
        for b in names[i + 1 :]:
            qs.append({"name": f"{a}-vs-{b}/disjoint", "langs": [rx.inter(kinds[a], kinds[b])], "replay": replay})
    return qs


def replay_rx(ob_id, query, words):
    for q in build_injective():
        if q["name"] == query and "replay" in q:
            return q["replay"](words)
    return False, "query not found"


def _docs():
    from octave_mcp.core.ast_nodes import Assignment, Block, Document, InlineMap, ListValue, Section

    def d0():
        return Document(name="DOC", meta={"TYPE": "T", "V": 2}, has_separator=True, raw_frontmatter="title: x", sections=[
            Assignment(key="A", value="text value"), Assignment(key="N", value=1), Assignment(key="B", value=True),
            Block(key="BLK", children=[Assignment(key="X", value=ListValue(items=["a", "b", "c"])), Block(key="IN", children=[Assignment(key="Y", value=None)])]),
            Section(section_id="1", key="SEC", annotation="note", children=[Assignment(key="M", value=ListValue(items=[InlineMap(pairs={"k": "v"})]))]),
        ])

    def d1():
        return Document(name="D2", sections=[Assignment(key="ONLY", value="1")])

    return [d0, d1]


def _mutations(doc):
    """Single-site content mutations: list of (label, function mutating the document in place)."""
    from octave_mcp.core.ast_nodes import Assignment, Block

    muts = []

    def leaves(nodes, acc):
        for n in nodes:
            if isinstance(n, Assignment):
                acc.append(n)
            elif hasattr(n, "children"):
                leaves(n.children, acc)
        return acc

    def containers(nodes, acc):
        for n in nodes:
            if hasattr(n, "children"):
                acc.append(n)
                containers(n.children, acc)
        return acc

    for i, leaf in enumerate(leaves([s for s in doc.sections if getattr(s, "key", "") != "SEAL"], [])):
        for label, new in (("str", "CHANGED"), ("typed", str(leaf.value) if not isinstance(leaf.value, str) else 7), ("null", None if leaf.value is not None else "null"), ("empty", "")):
            if new != leaf.value or type(new) is not type(leaf.value):
                muts.append((f"leaf{i}:{leaf.key}->{label}", lambda d, i=i, new=new: setattr(leaves([s for s in d.sections if getattr(s, "key", "") != "SEAL"], [])[i], "value", new)))
        muts.append((f"leaf{i}:rename", lambda d, i=i: setattr(leaves([s for s in d.sections if getattr(s, "key", "") != "SEAL"], [])[i], "key", "RENAMED")))
    muts.append(("insert-top", lambda d: d.sections.insert(0, Assignment(key="NEW", value=1))))
    muts.append(("delete-top", lambda d: d.sections.pop(0)))
    if len([s for s in doc.sections if getattr(s, "key", "") != "SEAL"]) >= 2:
        muts.append(("swap-top", lambda d: d.sections.__setitem__(slice(0, 2), [d.sections[1], d.sections[0]])))
    for ci, c in enumerate(containers(doc.sections, [])):
        if getattr(c, "key", "") == "SEAL":
            continue
        muts.append((f"container{ci}:insert-child", lambda d, ci=ci: containers(d.sections, [])[ci].children.append(Assignment(key="NEWC", value=1))))
        muts.append((f"container{ci}:delete-child", lambda d, ci=ci: containers(d.sections, [])[ci].children.pop(0)))
        muts.append((f"container{ci}:rename", lambda d, ci=ci: setattr(containers(d.sections, [])[ci], "key", "RENAMEDC")))
    if any(isinstance(s, Block) for s in doc.sections):
        def move(d):
            first = d.sections.pop(0)
            [s for s in d.sections if isinstance(s, Block)][0].children.insert(0, first)
        muts.append(("move-top-into-block", move))
    muts.append(("envelope-name", lambda d: setattr(d, "name", d.name + "X")))
    muts.append(("meta-add", lambda d: d.meta.__setitem__("EXTRA", 1)))
    if doc.meta:
        k = list(doc.meta)[0]
        muts.append(("meta-change", lambda d, k=k: d.meta.__setitem__(k, "OTHER")))
        muts.append(("meta-delete", lambda d, k=k: d.meta.pop(k)))
    muts.append(("frontmatter", lambda d: setattr(d, "raw_frontmatter", (d.raw_frontmatter or "") + "\nmore: y")))
    muts.append(("separator", lambda d: setattr(d, "has_separator", not d.has_separator)))

    def flip_hash(d):
        from octave_mcp.core.ast_nodes import Section

        sec = [s for s in d.sections if isinstance(s, Section) and s.key == "SEAL"][0]
        h = [c for c in sec.children if c.key == "HASH"][0]
        h.value = ("0" if h.value[0] != "0" else "1") + h.value[1:]

    muts.append(("hash-character", flip_hash))
    return muts


def T_tamper(di: int, mi: int, via_text: bool) -> int:
    """
    pre: 0 <= di <= 1 and 0 <= mi <= 60
    post: _ != 0
    """
    from crosshair.core import realize
    from crosshair.tracers import NoTracing
    from octave_mcp.core import sealer
    from octave_mcp.core.emitter import emit
    from octave_mcp.core.parser import parse

    di, mi, via_text = realize(di), realize(mi), realize(via_text)
    with NoTracing():  # concrete from here: the solver chose document, mutation and route
        doc = _docs()[di]()
        if sealer.verify_seal(doc).status is not sealer.SealStatus.NO_SEAL:
            return VIOL
        sealed = sealer.seal_document(doc)
        if sealer.verify_seal(sealed).status is not sealer.SealStatus.VERIFIED:
            return VIOL
        again = sealer.seal_document(sealed)
        if sealer.extract_seal(again) != sealer.extract_seal(sealed) or emit(again) != emit(sealed):
            return VIOL  # sealing again gives the same seal
        if via_text:
            sealed = parse(emit(sealed))  # written out and read back
            if sealer.verify_seal(sealed).status is not sealer.SealStatus.VERIFIED:
                return VIOL
        muts = _mutations(sealed)
        if mi >= len(muts):
            return SKIP
        label, fn = muts[mi]
        fn(sealed)
        if via_text:
            try:
                sealed = parse(emit(sealed))
            except Exception:  # noqa: BLE001
                return SKIP  # a mutation the reader refuses is not a verification question
        st = sealer.verify_seal(sealed).status
        return HELD if st is sealer.SealStatus.INVALID else VIOL


RESPELL = [
    lambda t: t,
    lambda t: t.replace("===END===\n", ""),
    lambda t: t.replace("A::", "A :: "),
    lambda t: t.replace("\n  ", "\n    "),
    lambda t: t.replace("[a,b,c]", "[ a , b , c ]").replace("[\n", "[\n\n"),
    lambda t: t.replace("\nN::1", "\n\n\nN::1"),
    lambda t: t.replace('"text value"', '"""text value"""'),
]


def T_cosmetic(ri: int) -> int:
    """
    pre: 0 <= ri <= 6
    post: _ != 0
    """
    from crosshair.core import realize
    from crosshair.tracers import NoTracing
    from octave_mcp.core import sealer
    from octave_mcp.core.emitter import emit
    from octave_mcp.core.parser import parse_with_warnings

    ri = realize(ri)
    with NoTracing():
        text = emit(sealer.seal_document(_docs()[0]()))
        doc, _ = parse_with_warnings(RESPELL[ri](text))
        return HELD if sealer.verify_seal(doc).status is sealer.SealStatus.VERIFIED else VIOL


def obligations(tier):
    th = tier == "thorough"
    sf = ["core.sealer.seal_document", "verify_seal", "extract_seal", "_remove_seal_section", "compute_seal", "emitter.emit"]
    obs = [
        rx_ob(PROP, "RX.scalar-emissions-pairwise-disjoint", build_injective, bound="all texts of any length: bare strings (language derived from the live needs_quotes), quoted strings, int and finite float texts, true/false/null, bracket and fence openers", functions=["emitter.emit_value", "emitter.needs_quotes"]),
        xh_ob(PROP, "T.every-single-site-mutation-invalidates", T_tamper, timeout=1500, bound="2 documents (rich: META, frontmatter, separator, nested blocks, section with annotation, lists, inline map; minimal) x every mutation of the catalogue (4 value replacements incl. type-only change and rename per leaf; insert/delete/swap/move nodes; per-container insert/delete/rename; envelope name; META add/change/delete; frontmatter; separator; one hash character) x in memory / through emit+parse", functions=sf + ["parser.parse"]),
        xh_ob(PROP, "T.cosmetic-respelling-still-verifies", T_cosmetic, timeout=600, bound="7 cosmetic rewrites of the sealed text (missing END, spaces around ::, 4-space indentation, spaced/blank-lined lists, blank lines, triple quotes)", functions=sf + ["parser.parse_with_warnings"]),
    ]
    return select(obs, tier)
