"""C17 - base_hash is a real compare-and-swap; failed and dry calls change nothing.

C17.a  one step from an arbitrary file state (instead of histories): the real write paths run once under CrossHair over
       vf/fsmodel.py from a symbolic pre-state (file absent / holds the content base_hash names / holds other content),
       with symbolic request (mode, base_hash relation, corrections_only) and fault schedule; asserted against the
       register model.  The tool object's own state is shown unchanged, which is what lets one step stand for
       histories of any length.
C17.b  two writers holding the same base_hash: writer A's real code runs with writer B's install (os.replace) injected
       at a symbolic step; B's own real run on the same pre-state shows it passes its checks.
"""
from __future__ import annotations

from harness.C16 import MODES, TARGET, _sched, _tool_run
from vf.ob import HELD, SKIP, VIOL, kf_active, select, xh_ob

PROP = "C17"
META = {
    "explanation": "CrossHair symbolic execution of the real write paths over the file-system model; one inductive step from an "
    "arbitrary file state; second writer modelled as an atomic install at a symbolic step of the first writer's run",
    "assumptions": [
        "CAS is claimed for files that exist when the call starts (documented: 'CAS guard when file exists'); a base_hash "
        "sent for an absent file is not compared with anything",
        "SHA-256 -> injective stub; os.replace atomic; temp-file operations of different writers do not collide (mkstemp)",
    ],
}

STATE = [None, "OLD", "OTHER"]  # pre-state of the target: absent / content named by base_hash 'h:OLD' / other content
BH = [None, "h:OLD", "h:FUTURE"]


def _world(state_i, parent_missing=False):
    from vf.fsmodel import FS

    fs = FS()
    fs.dirs |= {"/cwd", "/sb"}
    if not parent_missing:
        fs.dirs.add("/sb/d")
        if STATE[state_i] is not None:
            fs.files[TARGET] = [STATE[state_i], 0o644]
    return fs


def _codes(r):
    return [e.get("code") for e in r.get("errors", [])]


def _judge_step(fs, init, r, state_i, bh, corrections_only, new_content, parent_missing, faulted=False):
    files, dirs, links = fs.visible()
    same = (files, dirs, links) == init
    old = STATE[state_i] if not parent_missing else None
    base = BH[bh]
    if corrections_only and not same:
        return VIOL  # a dry call changed the file system
    if r.get("status") == "error":
        if not same:
            if kf_active(PROP, "mkdir-then-error") and files == init[0] and links == init[2] and all(d.startswith("/sb/d") for d in dirs - init[1]):
                return SKIP  # listed finding: parent directories created before a later failure are not removed
            return VIOL  # failed call changed the file system
    if base is not None and old is not None and "h:" + old != base:
        # stale / future base_hash on an existing file: E_HASH and identical bytes
        if r.get("status") != "error" or not same:
            return VIOL
        if "errors" in r and "E_HASH" not in _codes(r) and not fs.failed_ops:
            return VIOL  # (an injected read failure may pre-empt the comparison: then any error code is fine)
        return HELD
    if r.get("status") == "success" and not corrections_only:
        t = files.get(TARGET)
        if t is None or t[0] != new_content:
            return VIOL
        if base is not None and fs.replace_saw is not None and "h:" + fs.replace_saw != base:
            return VIOL  # installed over content that does not hash to base_hash
    return HELD


def _mk_step_tool(wmode, parent_missing):
    def S_step(state_i: int, bh: int, corrections_only: bool, f1: int, k1: int) -> int:
        """
        pre: 0 <= state_i <= 2 and 0 <= bh <= 2 and 0 <= f1 <= 30 and 0 <= k1 <= 4
        post: _ != 0
        """
        from octave_mcp.mcp import write as mod

        fs = _world(state_i, parent_missing)
        init = fs.visible()
        before = dict(vars(mod.WriteTool()))
        r = _tool_run(fs, wmode, bh, False, f1, k1, 0, 0, 0, corrections_only=corrections_only)
        if before != dict(vars(mod.WriteTool())):
            return VIOL
        return _judge_step(fs, init, r, state_i, bh, corrections_only, "CANON", parent_missing)

    return S_step


def _mk_step_atomic(parent_missing):
    def S_atomic(state_i: int, bh: int, f1: int, k1: int) -> int:
        """
        pre: 0 <= state_i <= 2 and 0 <= bh <= 2 and 0 <= f1 <= 30 and 0 <= k1 <= 4
        post: _ != 0
        """
        from octave_mcp.core import file_ops as m
        from vf.fsmodel import make_namespace

        fs = _world(state_i, parent_missing)
        ns = make_namespace(fs)
        m.os, m.tempfile, m.open, m.Path = ns.os, ns.tempfile, ns.open, ns.Path
        m.validate_octave_path = lambda p: (True, None)
        m.compute_hash = lambda c: "h:" + c
        init = fs.visible()
        _sched(fs, f1, k1, 0, 0, 0)
        r = m.atomic_write_octave(TARGET, "NEW", BH[bh])
        return _judge_step(fs, init, r, state_i, bh, False, "NEW", parent_missing)

    return S_atomic


def _cli_run(fs, wmode, base_hash):
    """Real `octave write` callback (cli.main.write) over the model FS; parse/emit stubbed.  -> result dict like the tools'."""
    import pathlib

    from harness.toolworld import make_doc
    from octave_mcp.cli import main as cli
    from octave_mcp.core import emitter, file_ops as m, parser
    from vf.fsmodel import make_namespace

    ns = make_namespace(fs)
    m.os, m.tempfile, m.open, m.Path = ns.os, ns.tempfile, ns.open, ns.Path
    m.validate_octave_path = lambda p: (True, None)
    m.compute_hash = lambda c: "h:" + c
    real = (pathlib.Path, parser.parse, emitter.emit)
    pathlib.Path = ns.Path  # the callback does `from pathlib import Path` at call time
    parser.parse = lambda c: make_doc()
    emitter.emit = lambda d: "CANON"
    try:
        try:
            cli.write.callback(TARGET, "K::v" if wmode == 0 else None, False, '{"K": 1}' if wmode == 1 else None, base_hash, None)
            return {"status": "success"}
        except SystemExit as e:
            return {"status": "error" if e.code else "success"}
    finally:
        pathlib.Path, parser.parse, emitter.emit = real


def _mk_step_cli(wmode):
    def S_cli(state_i: int, bh: int, f1: int, k1: int) -> int:
        """
        pre: 0 <= state_i <= 2 and 0 <= bh <= 2 and 0 <= f1 <= 30 and 0 <= k1 <= 4
        post: _ != 0
        """
        fs = _world(state_i, False)
        init = fs.visible()
        _sched(fs, f1, k1, 0, 0, 0)
        r = _cli_run(fs, wmode, BH[bh])
        return _judge_step(fs, init, r, state_i, bh, False, "CANON", False)

    return S_cli


# --- C17.b ---------------------------------------------------------------------------------------------------------
def _in_narrow_window(fs, ext_step):
    """Family of the listed finding 'cas-window': B installs after A re-read the target (a read that follows A's
    fsync of its temp file) and before A's replace."""
    log = fs.log
    try:
        fsync_i = log.index("fsync")
    except ValueError:
        return False
    reads_after = [i for i, op in enumerate(log) if op == "read" and i > fsync_i]
    if not reads_after:
        return False
    return reads_after[-1] + 1 < ext_step  # steps are 1-based: log[i] is step i+1


def _mk_two_writers(wmode, api):
    def W2(ext_at: int) -> int:
        """
        pre: 1 <= ext_at <= 30
        post: _ != 0
        """
        # both writers hold base_hash = h:OLD for a file that contains OLD
        from octave_mcp.core import file_ops as m
        from vf.fsmodel import make_namespace

        def run_a(fs):
            if api == "tool":
                return _tool_run(fs, wmode, 1, False, 0, 0, 0, 0, 0)
            ns = make_namespace(fs)
            m.os, m.tempfile, m.open, m.Path = ns.os, ns.tempfile, ns.open, ns.Path
            m.validate_octave_path = lambda p: (True, None)
            m.compute_hash = lambda c: "h:" + c
            return m.atomic_write_octave(TARGET, "NEW", "h:OLD")

        # writer B alone on the same pre-state: passes every check (its reads precede A's install)
        fs_b = _world(1)
        rb = run_a(fs_b)
        b_ok = rb.get("status") == "success"
        # writer A with B's install injected at step ext_at
        fs = _world(1)
        fs.ext_at, fs.ext_target, fs.ext_content = ext_at, TARGET, "B-CONTENT"
        ra = run_a(fs)
        a_ok = ra.get("status") == "success"
        if ext_at > fs.step:
            return SKIP  # B installs after A finished: A's success was legitimate, B's is then the stale one (same case mirrored)
        if a_ok and b_ok and fs.replace_saw == "B-CONTENT":
            if kf_active(PROP, "cas-window") and _in_narrow_window(fs, ext_at):
                return SKIP
            return VIOL  # both writers holding the same base_hash installed
        return HELD

    return W2


def obligations(tier):
    st = ["os/tempfile/open/Path -> vf.fsmodel", "hash -> injective stub", "parse/emit stage stubbed (tool)", "path validation -> valid"]
    WM = ["content", "changes", "normalize"]
    wit_mk = ("mkdir-then-error", {"state_i": 0, "bh": 0, "corrections_only": False, "f1": 4, "k1": 0}, "octave_write to a/new/dir/x.oct.md whose mkstemp fails returns status=error but leaves the created parent directories behind")
    obs = []
    for wm in range(3):
        for pm in (False, True):
            if pm and wm != 0:
                continue
            nm = f"A.one-step[{WM[wm]}{',missing-parent' if pm else ''}]"
            obs.append(xh_ob(PROP, nm, _mk_step_tool(wm, pm), timeout=900, bound="pre-state absent/OLD/OTHER x base_hash none/current/other x corrections_only x one injected failure (step 0..30, 5 kinds)", functions=["mcp.write.WriteTool.execute"], stubs=st, witnesses=[wit_mk] if pm else []))
    for pm in (False, True):
        obs.append(xh_ob(PROP, f"A.one-step[atomic_write_octave{',missing-parent' if pm else ''}]", _mk_step_atomic(pm), timeout=900, bound="pre-state absent/OLD/OTHER x base_hash none/current/other x one injected failure", functions=["core.file_ops.atomic_write_octave"], stubs=st,
                         witnesses=[("mkdir-then-error", {"state_i": 0, "bh": 0, "f1": 4, "k1": 0}, "atomic_write_octave whose mkstemp fails after mkdir(parents=True) returns status=error but leaves the created directories behind")] if pm else []))
    for wm in (0, 1):
        obs.append(xh_ob(PROP, f"A.one-step[cli-write,{WM[wm]}]", _mk_step_cli(wm), timeout=900, bound="`octave write` callback: pre-state absent/OLD/OTHER x base_hash none/current/other x one injected failure", functions=["cli.main.write", "core.file_ops.atomic_write_octave"], stubs=st + ["pathlib.Path -> model Path for the duration of the call"]))
    wit_cas = ("cas-window", {"ext_at": 0}, "two writers holding the same base_hash both succeed when the second installs between the first one's re-check and its os.replace (no lock; the re-check only narrows the window)")
    for api, wm in (("atomic", 0), ("tool", 0), ("tool", 1), ("tool", 2)):
        f = _mk_two_writers(wm, api)
        obs.append(xh_ob(PROP, f"B.two-writers[{api if api == 'atomic' else WM[wm]}]", f, timeout=600, bound="writer B's install injected at every step 1..30 of writer A's run; both hold base_hash of the current content", functions=["mcp.write.WriteTool.execute" if api == "tool" else "core.file_ops.atomic_write_octave"], stubs=st,
                         replay=_mk_w2_replay(wm, api), witnesses=[(wit_cas[0], {"ext_at": -1}, wit_cas[2])]))
    return select(obs, tier)


def _mk_w2_replay(wm, api):
    f = _mk_two_writers(wm, api)

    def replay(ext_at: int) -> int:
        if ext_at >= 1:
            return f(ext_at)
        # witness search for the listed finding: some step in the window reproduces it
        for s in range(1, 31):
            if f(s) == VIOL:
                return VIOL
        return HELD

    return replay
