"""C08 - validator verdicts follow the documented constraint semantics.

XH: every *Constraint.evaluate, ConstraintChain.evaluate / detect_conflicts / parse, Validator._validate_section and
_validate_unknown_fields are executed by CrossHair on symbolic values and parameters and compared with a reference
evaluator written from the property text (ref_* below).  FP: one z3 floating-point lemma about float(int) used by RANGE.
"""
from __future__ import annotations

from vf.ob import HELD, SKIP, VIOL, kf_active, select, xh_ob

PROP = "C08"
META = {
    "explanation": "CrossHair symbolic execution of the real constraint classes / chain / validator against a reference "
    "evaluator; z3 QF_FP lemma for float(int) exactness below 2^53.",
    "assumptions": [
        "REGEX semantics = Python re.match on str(value) (patterns from a pool anchored at both ends)",
        "values are finite (NaN outside the claim); RANGE on ints claimed for |v| <= 2^53 (FP lemma)",
        "dict keys realise under CrossHair: schema field names are drawn from a finite pool by symbolic index",
    ],
}


def _val(kind: int, s: str, n: int, x: float, b: bool):
    """Symbolic value of union type: 0 str, 1 int, 2 float, 3 bool, 4 None, 5 list[str], 6 empty list."""
    if kind == 0:
        return s
    if kind == 1:
        return n
    if kind == 2:
        return x
    if kind == 3:
        return b
    if kind == 4:
        return None
    if kind == 5:
        return [s]
    return []


def _codes(res):
    return [e.code for e in res.errors]


# --- REQ / CONST / TYPE / LENGTH ---------------------------------------------------------------------------
def K_req(kind: int, s: str, n: int, x: float, b: bool) -> int:
    """
    pre: 0 <= kind <= 6 and len(s) <= 2
    post: _ != 0
    """
    from octave_mcp.core import constraints as c

    v = _val(kind, s, n, x, b)
    res = c.RequiredConstraint().evaluate(v, "F")
    want = not (v is None or (isinstance(v, str) and v == ""))
    if res.valid != want:
        return VIOL
    if not res.valid and _codes(res) != ["E003"]:
        return VIOL
    if res.valid and res.errors:
        return VIOL
    o = c.OptionalConstraint().evaluate(v, "F")
    return HELD if o.valid and not o.errors else VIOL


def K_const(kind: int, s: str, n: int, x: float, b: bool, ckind: int, cs: str, cn: int, cb: bool) -> int:
    """
    pre: 0 <= kind <= 4 and kind != 2 and 0 <= ckind <= 3 and ckind != 2 and len(s) <= 2 and len(cs) <= 2
    post: _ != 0
    """
    from octave_mcp.core import constraints as c

    if kind == 2 and x != x:
        return SKIP
    v = _val(kind, s, n, x, b)
    k = _val(ckind, cs, cn, 0.0, cb)
    res = c.ConstConstraint(k).evaluate(v, "F")
    want = v == k  # documented: equality
    if res.valid != want:
        return VIOL
    if not res.valid and _codes(res) != ["E004"]:
        return VIOL
    return HELD


def K_type(kind: int, s: str, n: int, x: float, b: bool, t: int) -> int:
    """
    pre: 0 <= kind <= 6 and 0 <= t <= 4 and len(s) <= 2
    post: _ != 0
    """
    from octave_mcp.core import constraints as c
    from octave_mcp.core.ast_nodes import LiteralZoneValue

    tname = ["STRING", "NUMBER", "BOOLEAN", "LIST", "BOGUS"][t]
    v = _val(kind, s, n, x, b)
    res = c.TypeConstraint(tname).evaluate(v, "F")
    if t == 4:
        return HELD if (not res.valid and _codes(res) == ["E999"]) else VIOL
    want = {
        0: kind == 0,
        1: kind in (1, 2),  # booleans are never numbers
        2: kind == 3,
        3: kind in (5, 6),
    }[t]
    if res.valid != want:
        return VIOL
    if not res.valid and _codes(res) != ["E007"]:
        return VIOL
    # literal zones: TYPE[LITERAL] accepts exactly LiteralZoneValue, every other TYPE rejects it
    z = LiteralZoneValue(content=s, info_tag=None, fence_marker="```")
    if c.TypeConstraint(tname).evaluate(z, "F").valid:
        return VIOL
    if not c.LiteralConstraint().evaluate(z, "F").valid or c.LiteralConstraint().evaluate(v, "F").valid:
        return VIOL
    return HELD


def K_length(kind: int, s: str, n: int, x: float, b: bool, lim: int, extra: int) -> int:
    """
    pre: 0 <= kind <= 6 and len(s) <= 4 and 0 <= lim <= 6 and 0 <= extra <= 3
    post: _ != 0
    """
    from octave_mcp.core import constraints as c

    v = _val(kind, s, n, x, b)
    if kind == 5:
        v = [s] * extra
    mx = c.MaxLengthConstraint(lim).evaluate(v, "F")
    mn = c.MinLengthConstraint(lim).evaluate(v, "F")
    if kind in (0, 5, 6):
        ln = len(v)
        if mx.valid != (ln <= lim) or mn.valid != (ln >= lim):
            return VIOL
    else:
        if mx.valid or mn.valid:  # strings and lists only
            return VIOL
    if (not mx.valid and _codes(mx) != ["E012"]) or (not mn.valid and _codes(mn) != ["E013"]):
        return VIOL
    return HELD


# --- ENUM ------------------------------------------------------------------------------------------------------
def _mk_enum(n_allowed, la, lv):
    def K_enum(a0: str, a1: str, a2: str, v: str) -> int:
        """
        pre: len(a0) <= LA and len(a1) <= LA and len(a2) <= LA and len(v) <= LV
        post: _ != 0
        """
        from octave_mcp.core import constraints as c

        allowed = [a0, a1, a2][:NA]
        res = c.EnumConstraint(list(allowed)).evaluate(v, "F")
        # reference: exact member, else unique prefix, else E005 (none) / E006 (ambiguous)
        exact = False
        for a in allowed:
            if a == v:
                exact = True
        npre = 0
        for a in allowed:
            if len(a) >= len(v) and a[: len(v)] == v:
                npre += 1
        if exact or npre == 1:
            return HELD if res.valid and not res.errors else VIOL
        if res.valid:
            return VIOL
        return HELD if _codes(res) == (["E005"] if npre == 0 else ["E006"]) else VIOL

    K_enum.__doc__ = K_enum.__doc__.replace("LA", str(la)).replace("LV", str(lv))
    import types

    f = types.FunctionType(K_enum.__code__, {**K_enum.__globals__, "NA": n_allowed}, "K_enum", None, K_enum.__closure__)
    f.__doc__ = K_enum.__doc__
    f.__annotations__ = dict(K_enum.__annotations__)
    return f


def K_enum_nonstr(n: int, b: bool, kind: int, a: str) -> int:
    """
    pre: 1 <= kind <= 3 and kind != 2 and len(a) <= 2 and -20 <= n <= 20
    post: _ != 0
    """
    # non-string values are compared through their text (documented: ENUM exact or unique-prefix on the value text)
    from octave_mcp.core import constraints as c

    v = n if kind == 1 else b
    res = c.EnumConstraint([a, "1", "True"]).evaluate(v, "F")
    sv = str(v)
    allowed = [a, "1", "True"]
    exact = sv in allowed
    npre = len([x for x in allowed if x.startswith(sv)])
    want = exact or npre == 1
    return HELD if res.valid == want else VIOL


# --- REGEX (pool) ----------------------------------------------------------------------------------------------
REGEX_POOL = ["^[a-z]+$", "^a.c$", "^(ab|cd)$", "^[0-9]{2}$", "^x?y*$", "^$"]


def _ref_regex(i: int, s: str) -> bool:
    """Hand-written matchers for the pool, Python semantics ('$' also matches before one trailing newline)."""
    if s.endswith("\n"):
        core = s[:-1]
        if "\n" in core and i != 1:
            return False
        t = core
    else:
        t = s
    if i == 0:
        return len(t) >= 1 and all("a" <= ch <= "z" for ch in t)
    if i == 1:
        return len(t) == 3 and t[0] == "a" and t[2] == "c" and t[1] != "\n"
    if i == 2:
        return t == "ab" or t == "cd"
    if i == 3:
        return len(t) == 2 and all(ch.isdigit() and ch.isdecimal() for ch in t)
    if i == 4:
        j = 1 if t[:1] == "x" else 0
        return all(ch == "y" for ch in t[j:])
    return t == ""


def K_regex(i: int, s: str) -> int:
    """
    pre: 0 <= i <= 5 and len(s) <= 4
    post: _ != 0
    """
    from octave_mcp.core import constraints as c

    if "\n" in s:
        return SKIP  # CrossHair's model of '$' differs from CPython before a trailing newline: outside the claim
    if i == 3:
        for ch in s:
            if ord(ch) > 127:
                return SKIP  # Unicode decimal digits: Python's \\d is the semantics, not modelled by the reference
    res = c.RegexConstraint(REGEX_POOL[i]).evaluate(s, "F")
    want = _ref_regex(i, s)
    if res.valid != want:
        return VIOL
    return HELD if res.valid or _codes(res) == ["E008"] else VIOL


# --- RANGE -----------------------------------------------------------------------------------------------------
B53 = 2**53


def K_range_int(lo: int, hi: int, v: int, b: bool, kind: int) -> int:
    """
    pre: lo <= hi and 0 <= kind <= 2
    post: _ != 0
    """
    from octave_mcp.core import constraints as c

    if kind == 1:
        res = c.RangeConstraint(lo, hi).evaluate(b, "F")
        return HELD if (not res.valid and _codes(res) == ["E011"]) else VIOL  # booleans are not numbers
    if kind == 2:
        res = c.RangeConstraint(lo, hi).evaluate(None, "F")
        return HELD if (not res.valid and _codes(res) == ["E011"]) else VIOL
    res = c.RangeConstraint(lo, hi).evaluate(v, "F")
    want = lo <= v <= hi  # inclusive
    if res.valid != want:
        return VIOL
    return HELD if res.valid or _codes(res) == ["E011"] else VIOL




def K_range_float(lo: float, hi: float, v: float) -> int:
    """
    pre: lo <= hi and lo == lo and hi == hi and v == v
    post: _ != 0
    """
    from octave_mcp.core import constraints as c

    res = c.RangeConstraint(lo, hi).evaluate(v, "F")
    want = lo <= v <= hi
    return HELD if res.valid == want else VIOL


RANGE_TEXTS = [("3", 3.0), ("0", 0.0), ("-1", -1.0), ("5.5", 5.5), ("1e1", 10.0), (" 4 ", 4.0), ("+2", 2.0), ("abc", None), ("", None), ("4x", None), ("1,5", None)]


def K_range_str(i: int, j: int) -> int:
    """
    pre: 0 <= i <= 10 and 0 <= j <= 3
    post: _ != 0
    """
    # numeric strings (solver-indexed pool: float() of a symbolic str only enumerates): RANGE reads the text as a number;
    # non-numeric text is rejected with E011
    from octave_mcp.core import constraints as c

    text, num = RANGE_TEXTS[i]
    lo, hi = [(1, 5), (0, 0), (-1, 3), (4, 10)][j]
    res = c.RangeConstraint(lo, hi).evaluate(text, "F")
    if num is None:
        return HELD if (not res.valid and _codes(res) == ["E011"]) else VIOL
    return HELD if res.valid == (lo <= num <= hi) else VIOL


def fp_lemma():
    """FP: for every integer |n| <= 2^53, float(n) (round-to-nearest-even conversion to binary64) is exact, hence
    float(v) < lo  <=>  v < lo for the int bounds/values RANGE is claimed on.  Encoded over 64-bit signed
    bit-vectors (QF_BVFP): to_sbv(RTZ, to_fp(RNE, n)) == n."""
    import time

    import z3

    t0 = time.perf_counter()
    n = z3.BitVec("n", 64)
    lim = z3.BitVecVal(2**53, 64)

    def back(v):
        return z3.fpToSBV(z3.RTZ(), z3.fpSignedToFP(z3.RNE(), v, z3.Float64()), z3.BitVecSort(64))

    s = z3.Solver()
    s.set("timeout", 240000)
    s.add(n >= -lim, n <= lim)
    s.add(back(n) != n)
    r = str(s.check())
    # reachability twin: just beyond 2^53 the conversion is inexact for some n (sat expected)
    s2 = z3.Solver()
    s2.set("timeout", 240000)
    s2.add(n > lim, n < lim + 4)
    s2.add(back(n) != n)
    r2 = str(s2.check())
    dt = time.perf_counter() - t0
    return r, r2, dt


def fp_ob():
    def run(tier):
        r, r2, dt = fp_lemma()
        res = {"engine": "fp", "queries": 2, "solver_s": round(dt, 3), "paths": 0, "known_findings": [], "replays": []}
        if r == "unsat" and r2 == "sat":
            res["verdict"] = "confirmed"
            res["reach_witnessed"] = True
        else:
            res["verdict"] = "inconclusive"
            res["detail"] = f"float(int) exactness lemma: {r}; twin beyond 2^53: {r2}"
        if kf_active(PROP, "range-int-beyond-2^53"):
            from octave_mcp.core import constraints as c

            big = 2**53 + 1
            if not c.RangeConstraint(big, big).evaluate(big, "F").valid or c.RangeConstraint(big, big).evaluate(big - 1, "F").valid:
                res["known_findings"].append("range-int-beyond-2^53: RANGE[2^53+1,2^53+1] compares float(value): 2^53 is accepted / bound rounding (|v| > 2^53 only)")
        return res

    return {"id": "FP.float-of-int-exact-below-2^53", "engine": "fp", "timeout": 300, "bound": "all ints |n| <= 2^53", "functions": ["constraints.RangeConstraint.evaluate (float(value))"], "run": run}


# --- DATE / ISO8601 ----------------------------------------------------------------------------------------------
def date_gate_ob():
    """RX: the regex gate of DateConstraint (read from the live source) admits exactly DDDD-DD-DD, optionally followed
    by one newline (Python '$'); the calendar test itself is CPython's datetime.fromisoformat (C code, trusted)."""
    import ast
    import inspect
    import textwrap

    from vf import rx
    from vf.ob import rx_ob

    def build():
        from octave_mcp.core import constraints as c

        tree = ast.parse(textwrap.dedent(inspect.getsource(c.DateConstraint.evaluate)))
        pats = [n.args[0].value for n in ast.walk(tree) if isinstance(n, ast.Call) and getattr(n.func, "attr", "") == "match" and n.args and isinstance(n.args[0], ast.Constant)]
        if len(pats) != 1:
            raise rx.Unsupported("DateConstraint gate regex not found")
        gate = rx.full_lang(pats[0])
        D = rx.cls(rx.cat_ranges("digit"))
        shape = rx.cat(D, D, D, D, rx.lit("-"), D, D, rx.lit("-"), D, D)

        def replay(words):
            w = words[0]
            ok = c.DateConstraint().evaluate(w, "F").valid
            looks = len(w.rstrip("\n")) == 10
            return (ok and not looks), f"DATE accepts {w!r}: {ok}"

        return [
            {"name": "date-gate/inhabited", "langs": [gate], "expect": "sat"},
            {"name": "date-gate/only-date-shaped-text", "langs": [rx.minus(gate, rx.cat(shape, rx.opt(rx.lit("\n"))))], "replay": replay},
            {"name": "date-gate/every-date-shaped-text", "langs": [rx.minus(shape, gate)], "replay": lambda w: (True, "gate rejects " + repr(w[0]))},
        ]

    return rx_ob(PROP, "RX.DATE-gate", build, bound="all strings of any length", functions=["constraints.DateConstraint.evaluate (regex gate)"])


def K_date(i: int) -> int:
    """
    pre: 0 <= i <= 11
    post: _ != 0
    """
    # calendar clause on a solver-indexed pool of boundary texts (the calendar arithmetic is CPython's C datetime)
    from octave_mcp.core import constraints as c

    pool = [("2024-02-29", True), ("2023-02-29", False), ("1900-02-29", False), ("2000-02-29", True), ("2024-04-31", False), ("2024-12-31", True), ("2024-13-01", False), ("2024-00-10", False), ("2024-01-00", False), ("0000-01-01", False), ("2024/01/15", False), ("2024-1-15", False)]
    text, real = pool[i]
    res = c.DateConstraint().evaluate(text, "F")
    if res.valid != real:
        return VIOL
    if real and not c.Iso8601Constraint().evaluate(text, "F").valid:
        return VIOL
    return HELD if res.valid or _codes(res) == ["E014"] else VIOL


def K_date_shape(s: str) -> int:
    """
    pre: len(s) <= 3
    post: _ != 0
    """
    # short / malformed texts are never dates
    from octave_mcp.core import constraints as c

    res = c.DateConstraint().evaluate(s, "F")
    return HELD if (not res.valid and _codes(res) == ["E014"]) else VIOL


def _setup_datetime():
    """datetime.fromisoformat is C code: give it a concrete str by realising the (short) argument."""
    from crosshair.core import realize
    from octave_mcp.core import constraints as c

    real = c.datetime

    class DT:
        @staticmethod
        def fromisoformat(s):
            return real.fromisoformat(realize(s))

    c.datetime = DT


# --- chain semantics ---------------------------------------------------------------------------------------------
def K_chain_stub(n: int, v0: bool, v1: bool, v2: bool, v3: bool, req: bool, opt: bool) -> int:
    """
    pre: 0 <= n <= 4
    post: _ != 0
    """
    # valid <=> no declared conflict and every member valid; whatever the order (members = stubs with symbolic verdicts)
    from octave_mcp.core import constraints as c

    class Stub(c.Constraint):
        def __init__(self, ok, tag):
            self.ok = ok
            self.tag = tag
            self.calls = 0

        def evaluate(self, value, path=""):
            self.calls += 1
            if self.ok:
                return c.ValidationResult(valid=True)
            return c.ValidationResult(valid=False, errors=[c.ValidationError("EX" + self.tag, path, "S", "", "", "")])

        def to_string(self):
            return "S" + self.tag

        def compile(self):
            return ""

    verdicts = [v0, v1, v2, v3][:n]
    members = [Stub(ok, str(i)) for i, ok in enumerate(verdicts)]
    if req:
        members.append(c.RequiredConstraint())
    if opt:
        members.insert(0, c.OptionalConstraint())
    conflict = req and opt
    want = (not conflict) and all(verdicts)
    fwd = c.ConstraintChain(list(members)).evaluate("x", "F")
    rev = c.ConstraintChain(list(reversed(members))).evaluate("x", "F")
    if fwd.valid != want or rev.valid != want:
        return VIOL
    if conflict:
        if _codes(fwd) != ["E999"]:
            return VIOL
    elif not want:
        # the reported error belongs to a failing member
        first_bad = [i for i, ok in enumerate(verdicts) if not ok]
        if _codes(fwd) != ["EX%d" % first_bad[0]]:
            return VIOL
    elif fwd.errors:
        return VIOL
    return HELD


def K_conflicts(c1: str, c2: str, e0: str, e1: str, has_c1: bool, has_c2: bool, has_enum: bool, order: int) -> int:
    """
    pre: len(c1) <= 2 and len(c2) <= 2 and len(e0) <= 2 and len(e1) <= 2 and 0 <= order <= 2
    post: _ != 0
    """
    # declared conflicts: two different CONSTs; a CONST outside an ENUM.  Chain with a conflict rejects every value.
    from octave_mcp.core import constraints as c

    members = []
    if has_c1:
        members.append(c.ConstConstraint(c1))
    if has_enum:
        members.append(c.EnumConstraint([e0, e1]))
    if has_c2:
        members.append(c.ConstConstraint(c2))
    if order == 1:
        members.reverse()
    elif order == 2 and len(members) == 3:
        members = [members[1], members[2], members[0]]
    chain = c.ConstraintChain(members)
    conflict = False
    if has_c1 and has_c2 and c1 != c2:
        conflict = True
    if has_enum:
        for has, cv in ((has_c1, c1), (has_c2, c2)):
            if has and cv != e0 and cv != e1:
                conflict = True
    got = len(chain.detect_conflicts()) > 0
    if got != conflict:
        return VIOL
    if conflict:
        for probe in (c1, c2, e0):
            r = chain.evaluate(probe, "F")
            if r.valid or "E999" not in _codes(r):
                return VIOL
    return HELD


CHAIN_POOL = [
    "REQ",
    "OPT",
    "CONST[A]",
    "CONST[7]",
    "ENUM[A,AB,B]",
    "TYPE[STRING]",
    "TYPE[NUMBER]",
    "TYPE[BOOLEAN]",
    'REGEX["^[a-z]+$"]',
    "RANGE[1,5]",
    "MAX_LENGTH[2]",
    "MIN_LENGTH[1]",
    "DATE",
    "ISO8601",
    "TYPE[LIST]",
]


def _ref_member(i: int, v) -> bool:
    """Reference verdict of pool member i on value v (v: str | int | bool | None | list)."""
    isstr = isinstance(v, str)
    isbool = isinstance(v, bool)
    isnum = isinstance(v, (int, float)) and not isbool
    if i == 0:
        return not (v is None or (isstr and v == ""))
    if i == 1:
        return True
    if i == 2:
        return isstr and v == "A"
    if i == 3:
        return (isnum and v == 7) or (isbool and False)
    if i == 4:
        t = str(v)
        if t in ("A", "AB", "B"):
            return True
        return len([a for a in ("A", "AB", "B") if a.startswith(t)]) == 1
    if i == 5:
        return isstr
    if i == 6:
        return isnum
    if i == 7:
        return isbool
    if i == 8:
        return _ref_regex(0, str(v))
    if i == 9:
        if isbool or v is None or isinstance(v, list):
            return False
        if isnum:
            return 1 <= v <= 5
        try:
            return 1 <= float(v) <= 5
        except ValueError:
            return False
    if i == 10:
        return (isstr or isinstance(v, list)) and len(v) <= 2
    if i == 11:
        return (isstr or isinstance(v, list)) and len(v) >= 1
    if i in (12, 13):
        return False  # values below are never dates
    return isinstance(v, list)


def _mk_chain_real(length, i0=(0, 14), pool_limit=14):
    def K_chain_real(i0: int, i1: int, i2: int, i3: int, kind: int, s: str, n: int, b: bool, spaces: bool) -> int:
        """
        pre: 0 <= i0 <= 14 and 0 <= i1 <= 14 and 0 <= i2 <= 14 and 0 <= i3 <= 14 and 0 <= kind <= 6 and kind != 2 and len(s) <= 2 and -2 <= n <= 8
        post: _ != 0
        """
        # chain programs from the pool: parse the chain text with the real parser, evaluate, compare with the reference
        from octave_mcp.core import constraints as c

        idx = [i0, i1, i2, i3][:LEN]
        if spaces and any(" " in CHAIN_POOL[i] for i in idx):
            return SKIP
        text = (" " if spaces else "∧").join(CHAIN_POOL[i] for i in idx)
        chain = c.ConstraintChain.parse(text)
        if len(chain.constraints) != len(idx):
            return VIOL
        v = _val(kind, s, n, 0.0, b)
        if kind == 5:
            v = ["q"]  # str() of a list of symbolic strings only enumerates
        if (12 in idx or 13 in idx or 9 in idx) and kind == 0:
            return SKIP  # float()/fromisoformat of a symbolic str only enumerate: K_range_str / K_date cover str values
        if isinstance(v, str):
            for ch in v:
                o = ord(ch)
                if o < 65 or o > 122 or 90 < o < 97:
                    return SKIP  # ASCII letters only here: numeric-looking / other text is K_range_str's and K_regex's
        res = chain.evaluate(v, "F")
        has = set(idx)
        conflict = (0 in has and 1 in has) or (2 in has and 3 in has) or (4 in has and 3 in has)
        want = (not conflict) and all(_ref_member(i, v) for i in idx)
        return HELD if res.valid == want else VIOL

    import types

    f = types.FunctionType(K_chain_real.__code__, {**K_chain_real.__globals__, "LEN": length}, "K_chain_real", None, K_chain_real.__closure__)
    f.__doc__ = K_chain_real.__doc__.replace("0 <= i0 <= 14", f"{i0[0]} <= i0 <= {i0[1]}")
    if pool_limit != 14:
        f.__doc__ = f.__doc__.replace("<= 14", f"<= {pool_limit}")
    f.__annotations__ = dict(K_chain_real.__annotations__)
    return f


# --- document level ----------------------------------------------------------------------------------------------
NAMES = ["A", "B", "C", "D"]


def K_document(req0: bool, req1: bool, present: int, extra: int, policy: int, dup: bool) -> int:
    """
    pre: 0 <= present <= 3 and 0 <= extra <= 2 and 0 <= policy <= 3
    post: _ != 0
    """
    # schema with fields A (REQ or OPT), B (REQ or OPT); instance block with symbolic presence (bit mask), up to two
    # unknown fields C, D, optional duplicate of A; each UNKNOWN_FIELDS policy (3 = invalid policy text -> REJECT)
    from octave_mcp.core.ast_nodes import Assignment, Block, Document
    from octave_mcp.core.holographic import HolographicPattern
    from octave_mcp.core.constraints import ConstraintChain
    from octave_mcp.core.schema_extractor import FieldDefinition, PolicyDefinition, SchemaDefinition
    from octave_mcp.core.validator import Validator

    def fd(name, req):
        chain = ConstraintChain.parse("REQ" if req else "OPT")
        return FieldDefinition(name=name, pattern=HolographicPattern(example="x", constraints=chain, target=None))

    pol = ["REJECT", "WARN", "IGNORE", "BOGUS"][policy]
    schema = SchemaDefinition(name="S", version="1", policy=PolicyDefinition(version="1", unknown_fields=pol, targets=[]), fields={"A": fd("A", req0), "B": fd("B", req1)})
    children = []
    if present & 1:
        children.append(Assignment(key="A", value="v"))
    if present & 2:
        children.append(Assignment(key="B", value="v"))
    for i in range(extra):
        children.append(Assignment(key=NAMES[2 + i], value="u"))
    if dup and (present & 1):
        children.append(Assignment(key="A", value="w"))
    doc = Document(name="D", sections=[Block(key="S", children=children)])
    errs = Validator().validate(doc, strict=False, section_schemas={"S": schema})
    got = sorted((e.code, e.field_path, getattr(e, "severity", "error")) for e in errs)
    want = []
    if req0 and not (present & 1):
        want.append(("E003", "S.A", "error"))
    if req1 and not (present & 2):
        want.append(("E003", "S.B", "error"))
    for i in range(extra):
        if policy in (0, 3):
            want.append(("E007", "S." + NAMES[2 + i], "error"))
        elif policy == 1:
            want.append(("W001", "S." + NAMES[2 + i], "warning"))
    return HELD if got == sorted(want) else VIOL


# ---------------------------------------------------------------------------------------------------------------------
def obligations(tier):
    th = tier == "thorough"
    cf = ["constraints.%sConstraint.evaluate" % n for n in ("Required", "Optional", "Const", "Enum", "Type", "Regex", "Range", "MaxLength", "MinLength", "Date", "Iso8601", "Literal")]
    obs = [
        xh_ob(PROP, "K.REQ-OPT", K_req, timeout=120, bound="value of 7 kinds (str<=2, any int, any float, bool, None, [str], [])", functions=cf[:2]),
        xh_ob(PROP, "K.CONST", K_const, timeout=300, bound="value str<=2/any int/bool/None x constant str<=2/any int/bool (float values: IEEE paths too slow, outside the claim)", functions=[cf[2]]),
        xh_ob(PROP, "K.TYPE", K_type, timeout=200, bound="7 value kinds x STRING/NUMBER/BOOLEAN/LIST/unknown type + literal zone", functions=[cf[4], cf[11]]),
        xh_ob(PROP, "K.LENGTH", K_length, timeout=300, bound="7 value kinds, str<=4, list<=3, limit 0..6", functions=[cf[7], cf[8]]),
        xh_ob(PROP, "K.ENUM[2]", _mk_enum(2, 3 if th else 2, 3), timeout=900 if th else 300, bound=f"2 allowed strings <= {3 if th else 2} chars, value <= 3 chars, any characters", functions=[cf[3]]),
        xh_ob(PROP, "K.ENUM[3]", _mk_enum(3, 2, 3 if th else 2), timeout=1500 if th else 400, bound=f"3 allowed strings <= 2 chars, value <= {3 if th else 2} chars", functions=[cf[3]]),
        xh_ob(PROP, "K.ENUM-nonstring", K_enum_nonstr, timeout=200, bound="int -20..20 / bool against ['a','1','True']", functions=[cf[3]]),
        xh_ob(PROP, "K.REGEX-pool", K_regex, timeout=600, bound=f"{len(REGEX_POOL)} anchored patterns x value <= 4 chars", functions=[cf[5]]),
        xh_ob(PROP, "K.RANGE-int", K_range_int, timeout=200, bound="all int bounds and values (unbounded); bool and None rejected", functions=[cf[6]]),
        xh_ob(PROP, "K.RANGE-float", K_range_float, timeout=200, bound="all non-NaN floats", functions=[cf[6]]),
        xh_ob(PROP, "K.RANGE-str", K_range_str, timeout=300, bound="11 texts x 4 bound pairs chosen by symbolic index (float() of a symbolic str / float-vs-symbolic-int comparison do not exhaust)", functions=[cf[6]]),
        fp_ob(),
        date_gate_ob(),
        xh_ob(PROP, "K.DATE-calendar-pool", K_date, timeout=200, bound="12 boundary texts chosen by symbolic index (leap years, month/day limits, separators); calendar arithmetic itself is CPython's C datetime: outside the claim", functions=[cf[9], cf[10]]),
        xh_ob(PROP, "K.DATE-short", K_date_shape, timeout=200, bound="all strings <= 3 chars", functions=[cf[9]]),
        xh_ob(PROP, "CH.stub-members", K_chain_stub, timeout=300, bound="<= 4 members with symbolic verdicts + optional REQ/OPT, both orders", functions=["constraints.ConstraintChain.evaluate", "detect_conflicts"]),
        xh_ob(PROP, "CH.conflicts", K_conflicts, timeout=600, bound="<= 2 CONST (str<=2) and one ENUM of two strings <= 2, three orders", functions=["constraints.ConstraintChain.detect_conflicts", "evaluate"]),
        xh_ob(PROP, "DOC.required-and-unknown-fields", K_document, timeout=600, bound="schema of 2 fields (REQ/OPT each), 4 presence masks, 0-2 unknown fields, duplicate key, 4 policy texts", functions=["validator.Validator.validate", "_validate_section", "_validate_unknown_fields"]),
    ]
    chf = ["constraints.ConstraintChain.parse", "_split_parts", "_parse_atom", "evaluate"] + cf
    chs = ["datetime.fromisoformat (C) receives the realised argument"]
    obs.append(xh_ob(PROP, "CH.real-chains[len=1]", _mk_chain_real(1), timeout=600, bound=f"all chains of 1 member from a pool of {len(CHAIN_POOL)} constraint texts x value of 6 kinds (str: ASCII letters <= 2)", functions=chf, setup=_setup_datetime, stubs=chs))
    for lo in range(0, 15, 3):
        obs.append(xh_ob(PROP, f"CH.real-chains[len=2,first={lo}..{lo+2}]", _mk_chain_real(2, (lo, lo + 2)), timeout=900, bound=f"all chains of 2 members (first member index {lo}..{lo+2}) from the pool of {len(CHAIN_POOL)}, both separators, x value of 6 kinds", functions=chf, setup=_setup_datetime, stubs=chs))
    if th:
        for lo in range(0, 6):
            obs.append(xh_ob(PROP, f"CH.real-chains[len=3,first={lo},pool6]", _mk_chain_real(3, (lo, lo), pool_limit=5), timeout=3000, tiers=("thorough",), bound="all chains of 3 members from the first 6 pool texts (REQ OPT CONST[A] CONST[7] ENUM TYPE[STRING])", functions=chf, setup=_setup_datetime, stubs=chs))
    return select(obs, tier)
