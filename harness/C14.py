"""C14 - projections only remove, and say so: no invention, honest lossy flag.

XH: the real projector.project/_filter_fields and the eject converters (_ast_to_dict, _convert_block, _convert_value,
_ast_to_markdown, _block_to_markdown) run under CrossHair on documents whose keys are chosen by symbolic index from the
filter keys and neutral keys at every site of a skeleton with nested blocks, a section marker, list / inline-map /
literal-zone / holographic values; mode symbolic.  Oracle: the set of (path, value) leaves of the source model.
"""
from __future__ import annotations

from vf.ob import HELD, SKIP, VIOL, kf_active, select, xh_ob

PROP = "C14"
META = {
    "explanation": "CrossHair symbolic execution of projector + converters; leaf-set comparison with the source model",
    "assumptions": ["JSON/YAML text serialisation itself (C libraries) is not re-read: the dict handed to the dumper is compared", "OCTAVE format: the filtered AST is compared; its text is emit() of it (C01/C02)", "sibling keys are distinct (duplicate keys cannot be represented in a dict: listed finding)"],
}

POOL_A = ["STATUS", "TESTS", "NOTE"]
POOL_B = ["RISKS", "CI", "OTHER"]
POOL_C = ["DECISIONS", "DEPS", "MISC"]
EXEC = {"STATUS", "RISKS", "DECISIONS"}
DEV = {"TESTS", "CI", "DEPS"}


def _doc(a, b, c, d, e, f, g=2):
    from octave_mcp.core.ast_nodes import Assignment, Block, Document, HolographicValue, InlineMap, ListValue, LiteralZoneValue, Section

    holo = HolographicValue(example="e", constraints=None, target="T", raw_pattern='["e"∧REQ→§T]', tokens=[])
    zone = LiteralZoneValue(content="raw\ttext", info_tag="py", fence_marker="```")
    return Document(
        name="D",
        meta={"TYPE": "T", "N": 3},
        sections=[
            Assignment(key=POOL_A[a], value="v0"),
            Block(key=POOL_B[b], children=[
                Assignment(key=POOL_A[c], value=ListValue(items=["x", 2, InlineMap(pairs={"k": "w"})])),
                Block(key=POOL_C[d], children=[Assignment(key=POOL_A[e], value=zone), Assignment(key=POOL_B[0], value=None)]),
            ]),
            Section(section_id="1", key="SEC", children=[Assignment(key=POOL_A[f], value=holo), Block(key=POOL_B[1], children=[Assignment(key="Q", value=True)])]),
            Assignment(key=POOL_C[g], value=InlineMap(pairs={"a": 1})),
        ],
    )


def _norm(v):
    from octave_mcp.core.ast_nodes import HolographicValue, InlineMap, ListValue, LiteralZoneValue

    if isinstance(v, ListValue):
        return ("list", tuple(_norm(x) for x in v.items))
    if isinstance(v, InlineMap):
        return ("map", tuple((k, _norm(x)) for k, x in v.pairs.items()))
    if isinstance(v, LiteralZoneValue):
        return ("zone", v.content, v.info_tag, v.fence_marker)
    if isinstance(v, HolographicValue):
        return ("holo", v.raw_pattern)
    return ("s", type(v).__name__, v)


def _norm_py(v):
    if isinstance(v, list):
        return ("list", tuple(_norm_py(x) for x in v))
    if isinstance(v, dict):
        if v.get("__literal_zone__"):
            return ("zone", v["content"], v["info_tag"], v["fence_marker"])
        return ("map", tuple((k, _norm_py(x)) for k, x in v.items()))
    return ("s", type(v).__name__, v)


def _ast_leaves(doc):
    from octave_mcp.core.ast_nodes import Assignment, Block, Section

    out = set()
    for k, v in (doc.meta or {}).items():
        out.add((("META", k), _norm(v)))

    def walk(nodes, path):
        for n in nodes:
            if isinstance(n, Assignment):
                out.add((path + (n.key,), _norm(n.value)))
            elif isinstance(n, Block):
                walk(n.children, path + (n.key,))
            elif isinstance(n, Section):
                walk(n.children, path + ("§" + n.section_id + "::" + n.key,))

    walk(doc.sections, ())
    return out


def _dict_leaves(d):
    out = set()

    def walk(x, path, top):
        for k, v in x.items():
            if isinstance(v, dict) and not v.get("__literal_zone__") and (top or True) and _is_container(path + (k,)):
                walk(v, path + (k,), False)
            else:
                out.add((path + (k,), _norm_py(v)))

    containers = set()

    def _is_container(p):
        return p in CONT

    walk(d, (), True)
    return out


CONT: set = set()


def _containers(doc):
    """Paths that are blocks/sections/META in the source (so a dict at such a path is structure, not an inline map)."""
    from octave_mcp.core.ast_nodes import Block, Section

    out = {("META",)}

    def walk(nodes, path):
        for n in nodes:
            if isinstance(n, Block):
                out.add(path + (n.key,))
                walk(n.children, path + (n.key,))
            elif isinstance(n, Section):
                p = path + ("§" + n.section_id + "::" + n.key,)
                out.add(p)
                walk(n.children, p)

    walk(doc.sections, ())
    return out


def _holo_as_text(leaves):
    """JSON/YAML/Markdown project a holographic value as its source text."""
    return {(p, ("s", "str", v[1]) if v[0] == "holo" else v) for p, v in leaves}


def _md_keys(md):
    """Markdown leaf scanner: headings give the path, '- **K**: v' / '**K**: v' lines give leaves (key paths only)."""
    out = set()
    stack = []
    for line in md.split("\n"):
        if line.startswith("#"):
            level = len(line) - len(line.lstrip("#"))
            name = line[level:].strip()
            if level == 1:
                continue
            stack = stack[: level - 2] + [name]
        elif line.startswith("- **") or line.startswith("**"):
            body = line[2:] if line.startswith("- ") else line
            key = body[2 : body.index("**", 2)]
            top = not line.startswith("- ")
            out.add(tuple([] if top else stack) + (key,))
    return out


def _mk_project(mode_i):
    def P_project(a: int, b: int, c: int, d: int, e: int, f: int, g: int) -> int:
        """
        pre: 0 <= a <= 2 and 0 <= b <= 2 and 0 <= c <= 2 and 0 <= d <= 2 and 0 <= e <= 2 and 0 <= f <= 2 and 0 <= g <= 2
        post: _ != 0
        """
        from crosshair.tracers import NoTracing
        from octave_mcp.core import projector
        from octave_mcp.mcp import eject

        global CONT
        mode = ["canonical", "authoring", "executive", "developer", "bogus"][mode_i]
        doc = _doc(a, b, c, d, e, f, g)
        with NoTracing():  # every input is concrete from here (keys chosen by the solver through the indices)
            src = _ast_leaves(doc)
            CONT = _containers(doc)
            res = projector.project(doc, mode=mode)
            fd = res.filtered_doc
            oct_leaves = _ast_leaves(fd)
            # (1) no invention
            if not oct_leaves <= src:
                return VIOL
            # (2) canonical / authoring keep everything and say lossy=false
            if mode in ("canonical", "authoring"):
                if oct_leaves != src or res.lossy:
                    return VIOL
            # (3) anything left out => lossy
            if oct_leaves != src and not res.lossy:
                return VIOL
            # keep-sets: a kept key keeps its whole subtree; everything kept lies under or above a kept key
            if mode in ("executive", "developer"):
                keep = EXEC if mode == "executive" else DEV
                for path, v in src:
                    if path[0] == "META" or path[0].startswith("§"):
                        continue  # META and section markers are never filtered
                    if any(k in keep for k in path) and (path, v) not in oct_leaves:
                        return VIOL
                    if not any(k in keep for k in path) and (path, v) in oct_leaves:
                        return VIOL
            # (4) every format of this projection holds the same leaves
            dl = _dict_leaves(eject._ast_to_dict(fd))
            if dl != _holo_as_text(oct_leaves):
                return VIOL
            md = eject._ast_to_markdown(fd)
            want_md = {p if p[0] != "META" else ("META", p[1]) for p, v in oct_leaves}
            if _md_keys(md) != want_md:
                return VIOL
            return HELD

    return P_project


def dup_witness_ob():
    def run(tier):
        from octave_mcp.core.ast_nodes import Assignment, Document
        from octave_mcp.mcp import eject

        res = {"engine": "xh", "verdict": "confirmed", "paths": 1, "queries": 0, "solver_s": 0.0, "known_findings": [], "replays": [], "reach_witnessed": True}
        d = eject._ast_to_dict(Document(name="D", sections=[Assignment(key="K", value=1), Assignment(key="K", value=2)]))
        if d == {"K": 2}:
            if kf_active(PROP, "duplicate-keys-in-dict-views"):
                res["known_findings"].append("duplicate-keys-in-dict-views: a document with the sibling keys K::1 and K::2 ejects to JSON/YAML {K: 2} with lossy=false (a dict cannot hold both)")
            else:
                res["verdict"] = "violated"
                res["detail"] = "duplicate sibling keys collapse in JSON/YAML views with lossy=false"
        return res

    return {"id": "W.duplicate-keys-witness", "engine": "xh", "timeout": 60, "bound": "concrete witness of the listed finding", "functions": ["mcp.eject._ast_to_dict"], "run": run}


def obligations(tier):
    fns = ["core.projector.project", "_filter_fields", "mcp.eject._ast_to_dict", "_convert_block", "_convert_value", "_ast_to_markdown", "_block_to_markdown", "_format_markdown_value"]
    obs = [dup_witness_ob()]
    for mi, m in enumerate(["canonical", "authoring", "executive", "developer", "unknown-mode"]):
        obs.append(xh_ob(PROP, f"P.leaf-sets[{m}]", _mk_project(mi), timeout=1500, bound="skeleton: top-level assignment, block > (list-valued assignment, nested block > (literal zone, null)), section marker > (holographic value, block), inline-map assignment, META; 7 key sites each chosen by symbolic index from a filter key of each keep-set and a neutral key (3^7 combinations, incl. the ones where every top-level node survives as a pruned wrapper); all four formats per projection", functions=fns))
    return select(obs, tier)
