"""Document-level machinery shared by C01 / C02 / C03 / C07.

A *shape* is a hand-built AST (the content model, independent of the parser) whose content sites hold distinct
placeholders.  The real emitter and the real tokenizer run concretely on it (token layout of the canonical text); one
site's token then carries a symbolic value and the real Parser (and emitter) run under CrossHair on the token list.
The substitution is justified by the lexical obligations of C04/C01 ("every value text outside the listed families lexes
to exactly that token").
"""
from __future__ import annotations

from vf.ob import HELD, SKIP, VIOL


# ---------------------------------------------------------------------------------------------------------------------
# shapes
# ---------------------------------------------------------------------------------------------------------------------
def shape_rich():
    from octave_mcp.core.ast_nodes import Assignment, Block, Comment, Document, InlineMap, ListValue, Section

    return Document(
        name="ENV0",
        grammar_version="5.1.0",
        raw_frontmatter="title: fm0\nkind: x",
        meta={"TYPE": "MT0", "VERSION": "1.2.3", "NESTED": {"NK0": "nv0", "NK1": 7}},
        has_separator=True,
        sections=[
            Assignment(key="KA0", value="sv zero", leading_comments=["lc0", "lc1"], trailing_comment="tc0"),
            Assignment(key="KA1", value="IDV0"),
            Assignment(key="KA2", value=42),
            Assignment(key="KA3", value=True),
            Assignment(key="KA4", value=None),
            Assignment(key="KA5", value=ListValue(items=["li0", "li1"])),
            Assignment(key="KA6", value=ListValue(items=["lm0", "lm1", 3, "sv three"])),
            Assignment(key="KA7", value=ListValue(items=[InlineMap(pairs={"IK0": "iv0"}), InlineMap(pairs={"IK1": 5})])),
            Assignment(key="KA8", value=ListValue(items=["n0", ListValue(items=["n1", "n2"])])),
            Assignment(key="KA9", value="EX0→EX1⊕EX2"),
            Assignment(key="KB0", value="AN0<aq0>"),
            Assignment(key="KB1", value="$VAR0"),
            Assignment(key="KB2", value="§REF0"),
            Assignment(key="KB3", value=-2.5),
            Assignment(key="KB4", value=""),
            Assignment(key="KB5", value=ListValue(items=[])),
            Block(key="BL0", leading_comments=["lcb"], children=[
                Assignment(key="BC0", value="bv0"),
                Block(key="BL1", target="TG0", children=[Assignment(key="BC1", value="bv one"), Comment(text="orphan0")]),
                Assignment(key="KA0", value="dup name nested"),
            ]),
            Section(section_id="1", key="SN0", annotation="ann0,ann1", leading_comments=["lcs"], children=[
                Assignment(key="SC0", value="sc0"),
                Block(key="SB0", children=[Assignment(key="SC1", value=1)]),
                Section(section_id="2b", key="SN1", children=[Assignment(key="SC2", value="sc2")]),
            ]),
            Assignment(key="KA0", value="dup top"),
        ],
        trailing_comments=["doc trailing"],
    )


def shape_deep():
    from octave_mcp.core.ast_nodes import Assignment, Block, Document, ListValue, Section

    return Document(
        name="DEEP",
        sections=[
            Block(key="L1", children=[
                Block(key="L2", children=[
                    Block(key="L3", children=[Assignment(key="D0", value="dv0"), Assignment(key="D1", value=ListValue(items=["a", "b", "c"]))]),
                    Assignment(key="D2", value="dv2"),
                ]),
                Assignment(key="D3", value="dv3"),
                Section(section_id="7", key="INB", annotation="TG7", children=[Assignment(key="D9", value="dv9"), Block(key="SBB", children=[Assignment(key="DA", value="dva")])]),
                Block(key="EMPTYB", children=[]),
                Block(key="L2B", children=[Assignment(key="D4", value="dv4")]),
            ]),
            Section(section_id="9", key="S9", children=[Block(key="SB", children=[Assignment(key="D5", value="dv5")]), Assignment(key="D6", value="dv6")]),
            Section(section_id="NAMED", key="NAMED", children=[Assignment(key="D7", value=0)]),
            Assignment(key="D8", value="dv8"),
        ],
    )


SHAPES = {"rich": shape_rich, "deep": shape_deep}


# ---------------------------------------------------------------------------------------------------------------------
# structural comparison (field by field; short equalities)
# ---------------------------------------------------------------------------------------------------------------------
def same_value(a, b):
    from octave_mcp.core.ast_nodes import InlineMap, ListValue

    if isinstance(a, ListValue) or isinstance(b, ListValue):
        if not (isinstance(a, ListValue) and isinstance(b, ListValue)) or len(a.items) != len(b.items):
            return False
        for x, y in zip(a.items, b.items):
            if not same_value(x, y):
                return False
        return True
    if isinstance(a, InlineMap) or isinstance(b, InlineMap):
        if not (isinstance(a, InlineMap) and isinstance(b, InlineMap)) or len(a.pairs) != len(b.pairs):
            return False
        for (k1, v1), (k2, v2) in zip(a.pairs.items(), b.pairs.items()):
            if k1 != k2 or not same_value(v1, v2):
                return False
        return True
    if isinstance(a, dict) or isinstance(b, dict):
        if not (isinstance(a, dict) and isinstance(b, dict)) or len(a) != len(b):
            return False
        for (k1, v1), (k2, v2) in zip(a.items(), b.items()):
            if k1 != k2 or not same_value(v1, v2):
                return False
        return True
    if a is None or b is None:
        return a is None and b is None
    if isinstance(a, bool) or isinstance(b, bool):
        return isinstance(a, bool) and isinstance(b, bool) and a == b
    if isinstance(a, str) != isinstance(b, str):
        return False
    if isinstance(a, float) != isinstance(b, float):
        return False
    return a == b


def same_node(a, b):
    from octave_mcp.core.ast_nodes import Assignment, Block, Comment, Section

    if isinstance(a, Assignment):
        return (isinstance(b, Assignment) and a.key == b.key and same_value(a.value, b.value)
                and list(a.leading_comments) == list(b.leading_comments) and a.trailing_comment == b.trailing_comment)
    if isinstance(a, Block):
        if not (isinstance(b, Block) and a.key == b.key and a.target == b.target and list(a.leading_comments) == list(b.leading_comments)):
            return False
        return same_children(a.children, b.children)
    if isinstance(a, Section):
        if not (isinstance(b, Section) and a.section_id == b.section_id and a.key == b.key and a.annotation == b.annotation
                and list(a.leading_comments) == list(b.leading_comments)):
            return False
        return same_children(a.children, b.children)
    if isinstance(a, Comment):
        return isinstance(b, Comment) and a.text == b.text
    return False


def same_children(xs, ys):
    if len(xs) != len(ys):
        return False
    for x, y in zip(xs, ys):
        if not same_node(x, y):
            return False
    return True


def same_doc(a, b):
    if a.name != b.name or a.grammar_version != b.grammar_version or a.has_separator != b.has_separator:
        return False
    if not same_value(a.meta or {}, b.meta or {}):
        return False
    if list(getattr(a, "trailing_comments", []) or []) != list(getattr(b, "trailing_comments", []) or []):
        return False
    return same_children(a.sections, b.sections)


# ---------------------------------------------------------------------------------------------------------------------
# substitution of one placeholder in the content model
# ---------------------------------------------------------------------------------------------------------------------
def subst_value(v, old, new):
    from octave_mcp.core.ast_nodes import InlineMap, ListValue

    if isinstance(v, str):
        if v == old:
            return new
        if old and old in v and any(c in v for c in "\u2192\u2295\u29fa\u21cc\u2227\u2228@"):
            return v.replace(old, new)  # the placeholder is one operand of an expression value
        return v
    if isinstance(v, ListValue):
        return ListValue(items=[subst_value(x, old, new) for x in v.items])
    if isinstance(v, InlineMap):
        return InlineMap(pairs={(new if k == old else k): subst_value(x, old, new) for k, x in v.pairs.items()})
    if isinstance(v, dict):
        return {(new if k == old else k): subst_value(x, old, new) for k, x in v.items()}
    return v


def subst_doc(doc, old, new, role):
    """A copy of the content model in which placeholder `old` (at a site of the given role) is replaced by `new`."""
    from octave_mcp.core.ast_nodes import Assignment, Block, Comment, Document, Section

    def node(n):
        if isinstance(n, Assignment):
            return Assignment(key=new if (role == "key" and n.key == old) else n.key, value=subst_value(n.value, old, new) if role in ("value", "key") else n.value,
                              leading_comments=[new if (role == "comment" and c == old) else c for c in n.leading_comments],
                              trailing_comment=new if (role == "comment" and n.trailing_comment == old) else n.trailing_comment)
        if isinstance(n, Block):
            return Block(key=new if (role == "key" and n.key == old) else n.key, target=new if (role == "key" and n.target == old) else n.target,
                         leading_comments=[new if (role == "comment" and c == old) else c for c in n.leading_comments], children=[node(c) for c in n.children])
        if isinstance(n, Section):
            return Section(section_id=n.section_id, key=new if (role == "key" and n.key == old) else n.key, annotation=n.annotation,
                           leading_comments=[new if (role == "comment" and c == old) else c for c in n.leading_comments], children=[node(c) for c in n.children])
        if isinstance(n, Comment):
            return Comment(text=new if (role == "comment" and n.text == old) else n.text)
        return n

    d = Document(name=new if (role == "key" and doc.name == old) else doc.name, grammar_version=doc.grammar_version, raw_frontmatter=doc.raw_frontmatter,
                 meta=subst_value(doc.meta, old, new) if role in ("value", "key") else doc.meta, has_separator=doc.has_separator, sections=[node(s) for s in doc.sections])
    d.trailing_comments = [new if (role == "comment" and c == old) else c for c in (getattr(doc, "trailing_comments", []) or [])]
    return d


# ---------------------------------------------------------------------------------------------------------------------
# token layout of the canonical text (concrete), and the sites that can carry a symbolic value
# ---------------------------------------------------------------------------------------------------------------------
ROLE_OF = {"STRING": "value", "COMMENT": "comment"}


def canonical_tokens(shape):
    """-> (model AST, canonical text, tokens, sites) ; sites = [(token index, token type name, placeholder text, role)]"""
    from octave_mcp.core import lexer as lx
    from octave_mcp.core.emitter import emit
    from octave_mcp.core.parser import _strip_yaml_frontmatter

    model = SHAPES[shape]()
    text = emit(model)
    stripped, fm = _strip_yaml_frontmatter(text)
    toks, repairs = lx.tokenize(stripped)
    T = lx.TokenType
    sites = []
    for i, t in enumerate(toks):
        if t.type is T.STRING:
            sites.append((i, "STRING", t.value, "value"))
        elif t.type is T.COMMENT:
            sites.append((i, "COMMENT", t.value, "comment"))
        elif t.type is T.IDENTIFIER:
            nxt = toks[i + 1].type if i + 1 < len(toks) else None
            prev = toks[i - 1].type if i > 0 else None
            # tokens of a section header line (§ID::NAME[...]) and block targets are handled by their own obligations
            j = i
            on_section_line = False
            while j >= 0 and toks[j].type not in (T.NEWLINE, T.INDENT):
                if toks[j].type is T.SECTION and (j == 0 or toks[j - 1].type in (T.NEWLINE, T.INDENT)):
                    on_section_line = True
                j -= 1
            if on_section_line or (prev is T.SECTION and i >= 2 and toks[i - 2].type is T.FLOW):
                role = "skip"
            elif nxt in (T.ASSIGN, T.BLOCK) or (nxt is T.LIST_START and prev in (T.NEWLINE, T.INDENT)):
                role = "key"
            else:
                role = "value"
            if t.value in ("META",):
                role = "skip"
            if role != "skip":
                sites.append((i, "IDENTIFIER", t.value, role))
    return model, text, toks, sites, fm, repairs


def ident_like(s):
    """Cheap stand-in for scanner identifiers (ASCII letters, '_' ; not empty)."""
    if len(s) == 0:
        return False
    for c in s:
        o = ord(c)
        if o < 65 or o > 122 or (90 < o < 97 and o != 95):
            return False
    return True


KEY_POOL = ["NEWKEY", "a", "KA0", "L2", "TYPE", "Z_9", "true_", "REGEX"]


def count_sites(shape, kind):
    role = None
    if kind.startswith("IDENTIFIER-"):
        kind, role = "IDENTIFIER", kind.split("-")[1]
    sites = canonical_tokens(shape)[3]
    return len([s for s in sites if s[1] == kind and (role is None or s[3] == role)])


def run_site(shape, kind, si, v, check_emit=True, collect=None, role_filter=None):
    """Substitute site `si` (among the sites of token type `kind`) by a token carrying v; parse with the real Parser;
    compare field by field with the content model; compare the re-emitted text with the canonical text of the model."""
    from crosshair.core import realize
    from crosshair.tracers import NoTracing
    from octave_mcp.core import lexer as lx
    from octave_mcp.core.emitter import emit
    from octave_mcp.core.parser import Parser

    si = realize(si)
    with NoTracing():
        model, text, toks, sites, fm, _ = canonical_tokens(shape)
        mine = [s for s in sites if s[1] == kind and (role_filter is None or s[3] == role_filter)]
        if si >= len(mine):
            return SKIP
        idx, tname, old, role = mine[si]
        # placeholder must be unique in the model for the substitution oracle to be exact
        if sum(1 for s in sites if s[2] == old) != 1:
            return SKIP
        toks = list(toks)
    if kind == "IDENTIFIER":
        if not ident_like(v) or v == "META":
            return SKIP
        if len(v) == 1 and role == "value":
            pass
    if kind == "COMMENT" and (v != v.strip() or "\n" in v):
        return SKIP  # the lexer strips comment text and a comment ends at the newline
    t = toks[idx]
    toks[idx] = lx.Token(t.type, v, t.line, t.column, None, None)
    p = Parser(toks, strict_structure=True)
    doc2 = p.parse_document()
    doc2.raw_frontmatter = fm
    want = subst_doc(model, old, v, role)
    want.raw_frontmatter = fm
    if not same_doc(doc2, want):
        return VIOL
    if collect is not None:
        collect["warnings"] = p.warnings
        collect["role"] = role
    if check_emit:
        if emit(doc2) != emit(want):
            return VIOL
    return HELD
