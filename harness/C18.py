"""C18 - absent, null and value stay distinct; changes touch only named keys.

XH: the real WriteTool._apply_changes / _apply_mutations / _is_delete_sentinel / _normalize_value_for_ast, the CLI changes
branch, and emit with Absent placed by symbolic index, run under CrossHair; frame condition checked by object identity of
unnamed nodes and by the emitted lines of everything not named.
"""
from __future__ import annotations

from vf.ob import HELD, SKIP, VIOL, select, xh_ob

PROP = "C18"
META = {
    "explanation": "CrossHair symbolic execution of the real change-application and emission code",
    "assumptions": ["read-back of null / \"\" / [] as distinct values is C04/C01 (scalar and list round trip)", "request keys are chosen by symbolic index from existing keys, a fresh key, META.X and META (dict keys realise)"],
}

KEYS = ["A", "B", "FRESH", "META.M1", "META.NEW", "META"]


def _doc():
    from octave_mcp.core.ast_nodes import Assignment, Block, Document, ListValue, Section

    return Document(
        name="D",
        meta={"M1": "one", "M2": 2},
        has_separator=True,
        sections=[
            Assignment(key="A", value="needs quoting: yes"),
            Block(key="BLK", leading_comments=["c1"], children=[Assignment(key="A", value=1), Assignment(key="B", value=ListValue(items=["x", "y", "z"]))]),
            Assignment(key="B", value=ListValue(items=["l1", "l2", "l3"])),
            Section(section_id="1", key="S", children=[Assignment(key="A", value=None)]),
            Assignment(key="C", value="", leading_comments=["c2"], trailing_comment="t1"),
        ],
    )


def _op_value(op, s, n):
    """op: 0 DELETE, 1 null, 2 str, 3 int, 4 list, 5 dict, 6 empty string, 7 empty list"""
    return [{"$op": "DELETE"}, None, s, n, [s, n], {"k": s}, "", []][op]


def _expect_value(v):
    from octave_mcp.core.ast_nodes import InlineMap, ListValue

    if isinstance(v, list):
        return ("list", tuple(_expect_value(x) for x in v))
    if isinstance(v, dict):
        return ("map", tuple((k, _expect_value(x)) for k, x in v.items()))
    if isinstance(v, ListValue):
        return ("list", tuple(_expect_value(x) for x in v.items))
    if isinstance(v, InlineMap):
        return ("map", tuple((k, _expect_value(x)) for k, x in v.pairs.items()))
    return ("s", type(v).__name__, v)


def _lines_without(text, names):
    """Emitted lines that do not belong to the named top-level keys / META fields."""
    out = []
    skip_cont = False
    for line in text.split("\n"):
        key = line.split("::")[0].strip() if "::" in line else None
        if line.startswith(("//",)) and False:
            continue
        top = not line.startswith(" ")
        if top and key in names.get("top", ()):
            skip_cont = line.rstrip().endswith("[")
            continue
        if skip_cont:
            if line.strip() == "]":
                skip_cont = False
            continue
        if line.startswith("  ") and not line.startswith("   ") and key in names.get("meta", ()) and names.get("in_meta"):
            continue
        out.append(line)
    return out


def _mk_changes(api):
    def K_changes(k0: int, op0: int, k1: int, op1: int, two: bool, s: str, n: int, empty_meta: bool) -> int:
        """
        pre: 0 <= k0 <= 5 and 0 <= k1 <= 5 and 0 <= op0 <= 7 and 0 <= op1 <= 7 and len(s) <= 2
        post: _ != 0
        """
        from octave_mcp.core.ast_nodes import Assignment
        from octave_mcp.mcp import write as w

        doc = _doc()
        if empty_meta:
            doc.meta = {}  # a file without META block (or after META was cleared by an earlier request)
        nodes_before = list(doc.sections)
        values_before = [getattr(x, "value", None) for x in nodes_before]
        blk_children = list(doc.sections[1].children)
        sec_children = list(doc.sections[3].children)
        meta_before = dict(doc.meta)
        req = []
        for k, op in ((k0, op0),) + (((k1, op1),) if two else ()):
            key = KEYS[k]
            val = _op_value(op, s, n)
            if key == "META":
                if op == 0:
                    val = {"$op": "DELETE"}
                elif op in (1, 2, 3, 4, 6, 7):
                    return SKIP  # META takes a dict
                else:
                    val = {"M2": {"$op": "DELETE"}, "M3": s} if op == 5 else val
            req.append((key, val))
        if two and req[0][0] == req[1][0]:
            return SKIP  # a JSON object names a key once
        changes = dict(req)
        if api == "tool":
            out = w.WriteTool()._apply_changes(doc, changes)
        else:
            out = w.WriteTool()._apply_changes(doc, changes)
            w.WriteTool()._apply_mutations(doc, None)
        if out is not doc:
            return VIOL
        named_top = {k for k, _ in req if not k.startswith("META")}
        # frame: unnamed top-level nodes are the same objects with the same value objects, in the same order
        kept = [x for x in doc.sections if x in nodes_before]
        expect_kept = []
        for x in nodes_before:
            is_named = isinstance(x, Assignment) and x.key in named_top
            if not is_named:
                expect_kept.append(x)
        for x in expect_kept:
            if x not in doc.sections:
                return VIOL
        for x, v in zip(nodes_before, values_before):
            if not (isinstance(x, Assignment) and x.key in named_top):
                if getattr(x, "value", None) is not v:
                    return VIOL
        if [x for x in doc.sections if x in expect_kept] != expect_kept:
            return VIOL  # order of unnamed nodes
        if list(doc.sections[doc.sections.index(nodes_before[1])].children) != blk_children or list(nodes_before[3].children) != sec_children:
            return VIOL  # nested nodes with the same key names are never touched
        # named top-level keys
        for key, val in req:
            if key.startswith("META"):
                continue
            present = [x for x in doc.sections if isinstance(x, Assignment) and x.key == key]
            if isinstance(val, dict) and val.get("$op") == "DELETE":
                if present:
                    return VIOL
            else:
                if len(present) != 1:
                    return VIOL
                if _expect_value(present[0].value) != _expect_value(val):
                    return VIOL  # null stays None, "" stays "", [] stays an empty list, value is exactly the value
        # nothing else appeared
        for x in doc.sections:
            if x not in nodes_before and not (isinstance(x, Assignment) and x.key in named_top):
                return VIOL
        # META: merge semantics
        want_meta = dict(meta_before)
        for key, val in req:
            if key == "META":
                if val.get("$op") == "DELETE":
                    want_meta = {}
                else:
                    for mk, mv in val.items():
                        if isinstance(mv, dict) and mv.get("$op") == "DELETE":
                            want_meta.pop(mk, None)
                        else:
                            want_meta[mk] = mv
            elif key.startswith("META."):
                f = key[5:]
                if isinstance(val, dict) and val.get("$op") == "DELETE":
                    want_meta.pop(f, None)
                else:
                    want_meta[f] = val
        if set(doc.meta.keys()) != set(want_meta.keys()):
            return VIOL
        for mk in want_meta:
            if _expect_value(doc.meta[mk]) != _expect_value(want_meta[mk]):
                return VIOL
        return HELD

    return K_changes


def K_lines(k0: int, op0: int) -> int:
    """
    pre: 0 <= k0 <= 5 and 0 <= op0 <= 7
    post: _ != 0
    """
    # every key not named keeps exactly its canonical lines (values that need quoting, multi-line lists, comments)
    from crosshair.core import realize
    from crosshair.tracers import NoTracing
    from octave_mcp.core.emitter import emit
    from octave_mcp.mcp import write as w

    k0, op0 = realize(k0), realize(op0)  # one path per choice; everything below is concrete
    key = KEYS[k0]
    val = _op_value(op0, "new", 7)
    if key == "META":
        if op0 != 5:
            return SKIP
        val = {"M3": "x"}
    with NoTracing():  # concrete from here
        doc = _doc()
        before = emit(doc)
        w.WriteTool()._apply_changes(doc, {key: val})
        after = emit(doc)
        names = {"top": {key} if not key.startswith("META") else set(), "meta": {key[5:]} if key.startswith("META.") else ({"M3"} if key == "META" else set()), "in_meta": True}
        if _lines_without(before, names) != _lines_without(after, names):
            return VIOL
    return HELD


def _mk_absent():
    def K_absent(site: int, kind: int) -> int:
        """
        pre: 0 <= site <= 8 and 0 <= kind <= 1
        post: _ != 0
        """
        # Absent placed at every position: never emitted, never turned into null / "" / []; emission equals that of the
        # document with the absent field left out
        from crosshair.core import realize
        from crosshair.tracers import NoTracing
        from octave_mcp.core.ast_nodes import Absent, Assignment, Block, Document, InlineMap, ListValue, Section
        from octave_mcp.core.emitter import emit

        site, kind = realize(site), realize(kind)
        with NoTracing():
            X = Absent() if kind == 0 else None  # kind 1: explicit null at the same site must be written as null

            def build(val, drop):
                def asg(key, v):
                    return [] if (drop and v is val and isinstance(val, Absent)) else [Assignment(key=key, value=v)]

                meta = {"M1": 1}
                if not (drop and site == 3):
                    meta["MX"] = val if site == 3 else "m"
                nested = {"N1": 1}
                if not (drop and site == 4):
                    nested["NX"] = val if site == 4 else "n"
                meta["NEST"] = nested
                items = ["i1"] + ([] if (drop and site == 5) else [val if site == 5 else "i2"]) + ["i3"]
                pairs = {"p1": 1}
                if not (drop and site == 6):
                    pairs["px"] = val if site == 6 else 2
                allabs = ListValue(items=[val, val] if site == 7 and not drop else ([] if site == 7 else ["q"]))
                secs = []
                secs += asg("TOP", val if site == 0 else "t")
                secs.append(Block(key="BLK", children=asg("BC", val if site == 1 else "b") + [Assignment(key="KEEP", value=1)]))
                secs.append(Section(section_id="1", key="S", children=asg("SC", val if site == 2 else "s") + [Assignment(key="KEEP2", value=2)]))
                secs.append(Assignment(key="LST", value=ListValue(items=items)))
                secs.append(Assignment(key="MAP", value=ListValue(items=[InlineMap(pairs=pairs)])))
                secs.append(Assignment(key="ALL", value=allabs))
                secs += asg("LAST", val if site == 8 else "z")
                return Document(name="D", meta=meta, sections=secs)

            text = emit(build(X, False))
            if kind == 0:
                if text != emit(build(X, True)):
                    return VIOL
                keys = ["TOP", "BC", "SC", "MX", "NX", None, "px", None, "LAST"]
                k = keys[site]
                if k is not None and (k + "::") in text:
                    return VIOL
                if "Absent" in text:
                    return VIOL
            else:
                keys = ["TOP::null", "BC::null", "SC::null", "MX::null", "NX::null", "null", "px::null", "[null,null]", "LAST::null"]
                if keys[site] not in text:
                    return VIOL
        return HELD

    return K_absent


def K_cli_changes(k0: int, op0: int) -> int:
    """
    pre: 0 <= k0 <= 5 and 0 <= op0 <= 7
    post: _ != 0
    """
    # `octave write --changes` applies the same semantics as the tool (the document handed to emit is compared)
    import json
    import pathlib

    from crosshair.core import realize
    from crosshair.tracers import NoTracing
    from octave_mcp.cli import main as cli
    from octave_mcp.core import emitter, file_ops, parser
    from octave_mcp.mcp import write as w

    k0, op0 = realize(k0), realize(op0)
    key = KEYS[k0]
    val = _op_value(op0, "new", 7)
    if key == "META":
        if op0 not in (0, 5):
            return SKIP
        val = {"$op": "DELETE"} if op0 == 0 else {"M2": {"$op": "DELETE"}, "M3": "x"}
    with NoTracing():
        seen = {}
        want_doc = _doc()
        w.WriteTool()._apply_changes(want_doc, {key: val})
        want = emitter.emit(want_doc)
        real = (pathlib.Path, parser.parse, file_ops.atomic_write_octave, file_ops.validate_octave_path)

        class P:
            def __init__(self, p):
                pass

            def exists(self):
                return True

            def read_text(self, encoding=None):
                return "SRC"

        pathlib.Path = P
        parser.parse = lambda c: _doc()
        file_ops.validate_octave_path = lambda p: (True, None)
        file_ops.atomic_write_octave = lambda f, c, b: (seen.__setitem__("text", c), {"status": "success", "path": f, "canonical_hash": "h"})[1]
        try:
            try:
                cli.write.callback("/t/x.oct.md", None, False, json.dumps({key: val}), None, None)
            except SystemExit as e:
                if e.code:
                    return VIOL
        finally:
            pathlib.Path, parser.parse, file_ops.atomic_write_octave, file_ops.validate_octave_path = real
        return HELD if seen.get("text") == want else VIOL


def obligations(tier):
    fns = ["mcp.write.WriteTool._apply_changes", "_apply_mutations", "_is_delete_sentinel", "_normalize_value_for_ast"]
    obs = [
        xh_ob(PROP, "K.changes-frame-and-tristate", _mk_changes("tool"), timeout=1800, bound="document with top-level assignments A, B, C, a block and a section that reuse the names A/B, META{M1,M2} or no META at all; request of 1-2 entries: key by symbolic index from {A, B, fresh, META.M1, META.NEW, META}, operation from {DELETE, null, str <= 2 chars, any int, list, dict, empty string, empty list}", functions=fns),
        xh_ob(PROP, "K.unnamed-keys-keep-their-lines", K_lines, timeout=600, bound="same document (quoted values, multi-line lists, comments); one request entry: 6 keys x 8 operations; canonical lines of everything not named compared before/after", functions=fns + ["emitter.emit"]),
        xh_ob(PROP, "K.absent-never-emitted", _mk_absent(), timeout=600, bound="Absent (and, as control, null) at 9 sites: top-level, block child, section child, META field, nested META field, list item, inline-map value, all items of a list, last node", functions=["emitter.emit", "emit_block", "emit_section", "emit_meta", "emit_value", "_emit_multiline_list", "_needs_multiline", "is_absent"]),
        xh_ob(PROP, "K.cli-changes-branch", K_cli_changes, timeout=600, bound="`octave write --changes` callback: 6 keys x 8 operations; document handed to the writer equals the tool's", functions=["cli.main.write (changes branch)"], stubs=["pathlib.Path, parse, atomic_write_octave, validate_octave_path stubbed for the duration of the call"]),
    ]
    return select(obs, tier)
