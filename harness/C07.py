"""C07 - every lenient rewrite has a receipt; canonical input has none.

XH: parser receipts on symbolic value-token sequences (kinds chosen by the solver, positions symbolic); lexer receipts on
solver-indexed lenient lines with symbolic leading newlines / indentation through the real tokenizer; canonical token
layouts with a symbolic site yield no rewrite receipts; tool mappings copy each receipt exactly once.
"""
from __future__ import annotations

from harness import docmodel as dm
from vf.ob import HELD, SKIP, VIOL, kf_active, select, xh_ob

PROP = "C07"
META = {
    "explanation": "CrossHair symbolic execution of the real Parser (receipt sites), the receipt mapping code of both tools, and solver-indexed runs of the real tokenizer",
    "assumptions": ["W_DUPLICATE_KEY (type lenient_parse) is a diagnostic, not a rewrite receipt: canonical text with duplicate keys keeps it", "spec_violation records (bare_flow, wrong_case ...) are outside the property"],
}

VK = ["IDENTIFIER", "NUMBER", "STRING", "BOOLEAN", "NULL", "VERSION"]


def _vtok(kind_i, j, line, col):
    from octave_mcp.core.lexer import Token, TokenType as T

    k = VK[kind_i]
    if k == "IDENTIFIER":
        return Token(T.IDENTIFIER, "w%d" % j, line, col), "w%d" % j
    if k == "NUMBER":
        return Token(T.NUMBER, 10 + j, line, col, None, str(10 + j)), str(10 + j)
    if k == "STRING":
        return Token(T.STRING, "s %d" % j, line, col), '"s %d"' % j
    if k == "BOOLEAN":
        return Token(T.BOOLEAN, True, line, col), "true"
    if k == "NULL":
        return Token(T.NULL, None, line, col), "null"
    return Token(T.VERSION, "1.2.%d" % j, line, col), "1.2.%d" % j


def P_coalesce(n: int, k0: int, k1: int, k2: int, line: int, col: int) -> int:
    """
    pre: 1 <= n <= 3 and 0 <= k0 <= 5 and 0 <= k1 <= 5 and 0 <= k2 <= 5 and 1 <= line and 1 <= col
    post: _ != 0
    """
    # K:: followed by n value tokens: exactly one multi_word_coalesce receipt iff n >= 2, positioned at the first token,
    # listing exactly the words; a single value token yields no lenient_parse receipt
    from octave_mcp.core.lexer import Token, TokenType as T
    from octave_mcp.core.parser import Parser

    kinds = [k0, k1, k2][:n]
    toks = [Token(T.IDENTIFIER, "K", line, 1), Token(T.ASSIGN, "::", line, 2)]
    words = []
    c = col + 3
    for j, ki in enumerate(kinds):
        t, w = _vtok(ki, j, line, c)
        toks.append(t)
        words.append(w)
        c += 7
    toks += [Token(T.NEWLINE, "\n", line, c), Token(T.EOF, None, line + 1, 1)]
    p = Parser(toks)
    doc = p.parse_document()
    recs = [w for w in p.warnings if w.get("type") == "lenient_parse"]
    if n == 1:
        return HELD if not recs else VIOL
    co = [w for w in recs if w.get("subtype") == "multi_word_coalesce"]
    if len(co) != 1 or len(recs) != 1:
        return VIOL
    r = co[0]
    if r.get("line") != line or r.get("column") != col + 3:
        return VIOL
    if list(r.get("original")) != words:
        return VIOL
    if r.get("result") != " ".join(words) or doc.sections[0].value != " ".join(words):
        return VIOL
    return HELD


def P_recovery(kind: int, line: int, col: int, ndup: int) -> int:
    """
    pre: 0 <= kind <= 2 and 1 <= line <= 30 and 1 <= col <= 30 and 2 <= ndup <= 3
    post: _ != 0
    """
    from octave_mcp.core.lexer import Token, TokenType as T
    from octave_mcp.core.parser import Parser

    if kind == 0:  # bare identifier line dropped
        toks = [Token(T.IDENTIFIER, "LONELY", line, col), Token(T.NEWLINE, "\n", line, col + 6), Token(T.IDENTIFIER, "K", line + 1, 1), Token(T.ASSIGN, "::", line + 1, 2), Token(T.NUMBER, 1, line + 1, 4, None, "1"), Token(T.NEWLINE, "\n", line + 1, 5), Token(T.EOF, None, line + 2, 1)]
        p = Parser(toks)
        p.parse_document()
        recs = [w for w in p.warnings if w.get("type") == "lenient_parse"]
        return HELD if len(recs) == 1 and recs[0].get("subtype") == "bare_line_dropped" and recs[0].get("original") == "LONELY" and recs[0].get("line") == line and recs[0].get("column") == col else VIOL
    if kind == 1:  # unclosed list
        toks = [Token(T.IDENTIFIER, "K", line, 1), Token(T.ASSIGN, "::", line, 2), Token(T.LIST_START, "[", line, 4), Token(T.IDENTIFIER, "a", line, 5), Token(T.NEWLINE, "\n", line, 6), Token(T.EOF, None, line + 1, col)]
        p = Parser(toks)
        p.parse_document()
        recs = [w for w in p.warnings if w.get("type") == "lenient_parse"]
        return HELD if len(recs) == 1 and recs[0].get("subtype") == "unclosed_list" and recs[0].get("line") == line + 1 and recs[0].get("column") == col else VIOL
    toks = []
    for i in range(ndup):
        toks += [Token(T.IDENTIFIER, "K", line + i, 1), Token(T.ASSIGN, "::", line + i, 2), Token(T.NUMBER, i, line + i, 4, None, str(i)), Token(T.NEWLINE, "\n", line + i, 5)]
    toks.append(Token(T.EOF, None, line + ndup, 1))
    p = Parser(toks)
    doc = p.parse_document()
    recs = [w for w in p.warnings if w.get("subtype") == "duplicate_key"]
    if len(doc.sections) != ndup or len(recs) != ndup - 1:
        return VIOL
    return HELD if list(recs[-1].get("all_lines")) == [line + i for i in range(ndup)] else VIOL


LINES = [
    ("K::A->B", [("->", "→", 5)]),
    ("K::A + B", [("+", "⊕", 6)]),
    ("K::[a|b, c&d]", [("|", "∨", 6), ("&", "∧", 11)]),
    ("#1::S", [("#", "§", 1)]),
    ("K::A<->B", [("<->", "⇌", 5)]),
    ("K::A vs B", [("vs", "⇌", 6)]),
    ("K::x~y", [("~", "⧺", 5)]),
    ('K::"""t"""', [('"""', "t", 4)]),
    ("K::A→B", []),
    ("K::[a∨b,c∧d]", []),
    ('K::"a -> b + c | d"', []),
    ("K::A->B->C // x -> y", [("->", "→", 5), ("->", "→", 8)]),
]


def L_lexer_receipts(li: int, newlines: int, indent: int) -> int:
    """
    pre: 0 <= li <= 11 and 0 <= newlines <= 2 and 0 <= indent <= 4
    post: _ != 0
    """
    # real tokenizer: one normalization receipt per alias occurrence with that occurrence's text and position; none for
    # Unicode spellings, quoted text and comments
    from crosshair.core import realize
    from crosshair.tracers import NoTracing
    from octave_mcp.core import lexer as lx

    li, newlines, indent = realize(li), realize(newlines), realize(indent)
    with NoTracing():
        line, want = LINES[li]
        text = "\n" * newlines + " " * indent + line + "\n"
        toks, repairs = lx.tokenize(text)
        got = [(r["original"], r["normalized"], r["line"], r["column"]) for r in repairs if r.get("type") == "normalization"]
        exp = [(o, n, newlines + 1, c + indent) for o, n, c in want]
        return HELD if got == exp else VIOL


PREFIXES = ['"x"', "a", "12", "$v", "true", "[p,q]", '"""t1NLt2"""', '"""NLt"""', "[p,NLq]", "p->q", '"a -> b"']
ALIAS_ITEMS = [("A->B", "->"), ("A + B", "+"), ("a|b", "|"), ("c&d", "&"), ("A<->B", "<->"), ("A vs B", "vs"), ("x~y", "~"), ("foo bar", None)]


def L_receipts_point_at_their_text(pi: int, ai: int, nl: int, indent: int, lead: int) -> int:
    """
    pre: 0 <= pi <= 10 and 0 <= ai <= 7 and 1 <= nl <= 2 and 0 <= indent <= 3 and 0 <= lead <= 2
    post: _ != 0
    """
    # a rewrite site that FOLLOWS another token on the same line (incl. tokens that span lines: multi-line triple-quoted
    # strings, lists broken over lines): every lexer/parser receipt points at a position where the input really holds
    # the reported original text, and there is exactly one receipt per alias occurrence outside quotes
    from crosshair.core import realize
    from crosshair.tracers import NoTracing
    from octave_mcp.core import lexer as lx
    from octave_mcp.core.parser import parse_with_warnings

    from vf.ob import pick

    pi, ai, nl, indent, lead = pick(pi, 11), pick(ai, 8), pick(nl, 2, 1), pick(indent, 4), pick(lead, 3)
    with NoTracing():
        prefix = PREFIXES[pi].replace("NL", "\n" * max(nl, 1))
        item, alias = ALIAS_ITEMS[ai]
        text = "\n" * lead + " " * indent + "K::[" + prefix + ", " + item + "]\n"
        lines = text.split("\n")
        toks, repairs = lx.tokenize(text)
        norm = [r for r in repairs if r.get("type") == "normalization"]
        for r in norm:
            o = r["original"]
            ln, col = r["line"], r["column"]
            if not (1 <= ln <= len(lines)) or not lines[ln - 1][col - 1 :].startswith(o):
                return VIOL
        want = (1 if alias else 0) + (1 if prefix.startswith('"""') else 0) + (1 if prefix == "p->q" else 0)
        if len(norm) != want:
            return VIOL
        _, ws = parse_with_warnings(text)
        for w in ws:
            if w.get("type") == "lenient_parse" and w.get("subtype") == "multi_word_coalesce":
                ln, col = w["line"], w["column"]
                first = w["original"][0] if isinstance(w.get("original"), list) else str(w.get("original"))
                if not (1 <= ln <= len(lines)) or not lines[ln - 1][col - 1 :].startswith(str(first)):
                    return VIOL
        if alias is None and not any(w.get("subtype") == "multi_word_coalesce" for w in ws):
            return VIOL
        return HELD


def _mk_canonical(shape, kind, n):
    role = None
    tk = kind
    if kind.startswith("IDENTIFIER-"):
        tk, role = "IDENTIFIER", kind.split("-")[1]

    def C_canonical(si: int, v: str) -> int:
        """
        pre: 0 <= si <= 40 and len(v) <= N
        post: _ != 0
        """
        # canonical token layout with a symbolic site: the parser emits no rewrite receipt
        col = {}
        r = dm.run_site(shape, tk, si, v, check_emit=False, collect=col, role_filter=role)
        if r != HELD:
            return r if r != VIOL else SKIP  # content fidelity itself is C02's verdict
        for w in col["warnings"]:
            if w.get("type") == "normalization":
                return VIOL
            if w.get("type") == "lenient_parse" and w.get("subtype") not in ("duplicate_key", "deep_nesting"):
                return VIOL
        return HELD

    C_canonical.__doc__ = C_canonical.__doc__.replace("N", str(n))
    return C_canonical


def C_models_have_no_receipts(which: int) -> int:
    """
    pre: 0 <= which <= 1
    post: _ != 0
    """
    from crosshair.core import realize
    from crosshair.tracers import NoTracing
    from octave_mcp.core.parser import parse_with_warnings

    which = realize(which)
    with NoTracing():
        model, text, toks, sites, fm, repairs = dm.canonical_tokens(list(dm.SHAPES)[which])
        _, ws = parse_with_warnings(text)
        for w in ws:
            if w.get("type") == "normalization" or (w.get("type") == "lenient_parse" and w.get("subtype") != "duplicate_key"):
                return VIOL
        return HELD


KINDS = [
    {"type": "normalization", "original": "->", "normalized": "→"},
    {"type": "lenient_parse", "subtype": "multi_word_coalesce", "original": ["a", "b"], "result": "a b"},
    {"type": "lenient_parse", "subtype": "duplicate_key", "key": "K", "duplicate_line": 9, "all_lines": [1, 9]},
    {"type": "spec_violation", "subtype": "bare_flow"},
    {"type": "repair_candidate", "subtype": "curly_brace_annotation", "original": "A{b}", "repaired": "A<b>"},
    {"type": "normalization", "original": '"""', "normalized": '"'},
    {"type": "normalization", "original": "vs", "normalized": "\u21cc"},
]


def M_mapping(n: int, k0: int, k1: int, k2: int, line: int, col: int, tool: int) -> int:
    """
    pre: 0 <= n <= 3 and 0 <= k0 <= 6 and 0 <= k1 <= 6 and 0 <= k2 <= 6 and 1 <= line and 1 <= col and 0 <= tool <= 2
    post: _ != 0
    """
    # the tools copy / map every receipt exactly once, with its text and position
    from harness.toolworld import World, drive, install_validate_stubs
    from octave_mcp.mcp import write as w

    recs = []
    for j, k in enumerate([k0, k1, k2][:n]):
        r = dict(KINDS[k])
        r["line"] = line + j
        r["column"] = col
        recs.append(r)
    if tool == 0:
        world = World()
        mod = install_validate_stubs(world, parse_outcome=0, n_parse_warnings=0, builtin=False, load_outcome=0, n_errors_first=0, n_errors_after_fix=0, emit_raises=False, compile_raises=False, zones=False)
        real = mod.parse_with_warnings
        mod.parse_with_warnings = lambda c: (real(c)[0], list(recs))
        res = drive(mod.ValidateTool().execute(schema="ANY", content="X"))
        return HELD if res["repairs"] == recs and res["repair_log"] == recs else VIOL
    tool_ = w.WriteTool()
    if tool == 1:
        got = tool_._map_parse_warnings_to_corrections(recs)
        want_n = len([r for r in recs if r["type"] in ("normalization", "lenient_parse")])
    else:
        norm = [r for r in recs if r["type"] == "normalization"]
        got = tool_._track_corrections("x", "x", norm)
        want_n = len(norm)
        recs = norm
    if len(got) != want_n:
        return VIOL
    src = [r for r in recs if r["type"] in ("normalization", "lenient_parse")]
    for g, r in zip(got, src):
        if g.get("column") != r["column"]:
            return VIOL
        if r["type"] == "normalization":
            if g.get("before") != r["original"] or g.get("after") != r["normalized"] or g.get("line") != r["line"] or g.get("code") != "W002":
                return VIOL
        elif r.get("subtype") == "multi_word_coalesce":
            if g.get("before") != r["original"] or g.get("after") != r["result"] or g.get("line") != r["line"]:
                return VIOL
        elif r.get("subtype") == "duplicate_key":
            if g.get("key") != "K" or g.get("all_lines") != [1, 9]:
                return VIOL
    return HELD


def strict_write_witness_ob():
    def run(tier):
        import asyncio
        import tempfile

        from octave_mcp.mcp.write import WriteTool

        res = {"engine": "xh", "verdict": "confirmed", "paths": 1, "queries": 0, "solver_s": 0.0, "known_findings": [], "replays": [], "reach_witnessed": True}
        d = tempfile.mkdtemp()
        r = asyncio.run(WriteTool().execute(target_path=d + "/a.oct.md", content="===D===\nK::hello big world\n===END===\n", lenient=False, corrections_only=True))
        has = any("COALESCE" in str(c.get("code", "")) for c in r.get("corrections", []))
        if r.get("status") == "success" and not has:
            if kf_active(PROP, "strict-write-drops-parser-receipts"):
                res["known_findings"].append("strict-write-drops-parser-receipts: octave_write(lenient=false) parses with parse(), which discards parser warnings, so a multi-word bare value is coalesced without any correction entry (lenient=true and octave_validate report it)")
            else:
                res["verdict"] = "violated"
                res["detail"] = "multi-word coalescing without correction in strict write mode"
        return res

    return {"id": "W.strict-write-mode-witness", "engine": "xh", "timeout": 60, "bound": "concrete witness of the listed finding", "functions": ["mcp.write.WriteTool.execute (strict branch)"], "run": run}


def obligations(tier):
    th = tier == "thorough"
    obs = [
        xh_ob(PROP, "P.multi-word-coalesce-receipts", P_coalesce, timeout=900, bound="K:: followed by 1-3 value tokens of kinds chosen by the solver from IDENTIFIER/NUMBER/STRING/BOOLEAN/NULL/VERSION; line and column any positive integers", functions=["parser.Parser.parse_value (all coalescing sites)", "_token_to_str"]),
        xh_ob(PROP, "P.recovery-receipts", P_recovery, timeout=600, bound="bare identifier line, unclosed list at EOF, key repeated 2-3 times; line and column symbolic in 1..30", functions=["parser.Parser.parse_section (bare_line_dropped)", "parse_list (unclosed_list)", "_emit_duplicate_key_warning"]),
        xh_ob(PROP, "L.receipts-point-at-their-text-after-any-token", L_receipts_point_at_their_text, timeout=900, bound="list line K::[<prefix>, <item>]: 11 prefix tokens (string, identifier, number, variable, boolean, list, triple-quoted strings spanning 1-2 line breaks, list broken over lines, alias expression, quoted alias text) x 8 items (7 alias spellings, one multi-word value) x indent 0-3 x 0-2 leading blank lines", functions=["lexer.tokenize (position tracking)", "parser.parse_with_warnings"]),
        xh_ob(PROP, "L.lexer-alias-receipts", L_lexer_receipts, timeout=600, bound=f"{len(LINES)} lenient / canonical lines (every alias of the table, triple quotes, aliases inside quotes and comments, two occurrences) x 0-2 leading newlines x indentation 0-4, chosen by the solver; real tokenizer", functions=["lexer.tokenize (normalization records)"]),
        xh_ob(PROP, "C.canonical-models-have-no-rewrite-receipts", C_models_have_no_receipts, timeout=300, bound="canonical text of both content models through parse_with_warnings", functions=["parser.parse_with_warnings"]),
        xh_ob(PROP, "M.tools-map-each-receipt-once", M_mapping, timeout=1500, bound="0-3 receipts of kinds chosen by the solver (normalization, multi_word_coalesce, duplicate_key, spec_violation, repair_candidate) with symbolic line/column; octave_validate.repairs, octave_write._map_parse_warnings_to_corrections, _track_corrections", functions=["mcp.validate.ValidateTool.execute (STAGE 1)", "mcp.write.WriteTool._map_parse_warnings_to_corrections", "_track_corrections"]),
        strict_write_witness_ob(),
    ]
    for kind, n in (("STRING", 2), ("IDENTIFIER-value", 2)):
        obs.append(xh_ob(PROP, f"C.canonical-layout-symbolic-site[deep+rich,{kind}]", _mk_canonical("rich", kind, n), timeout=1500, bound=f"rich content model: every {kind} site in turn symbolic |v| <= {n}: no normalization / lenient_parse rewrite receipt", functions=["parser.Parser (all warning sites)"]))
    return select(obs, tier)
