"""C19 - tools cannot be steered outside the intended files.

RX: the schema-name and frozen-reference patterns (read live) admit no path characters.
XH + fsmodel: the three path validators, WriteTool.execute / atomic_write_octave / ValidateTool.execute(file_path) and
validate_source_uri run under CrossHair on paths assembled from segments chosen by symbolic index over a model tree
containing symlinks to outside, dangling symlinks and a secret outside the sandbox root.
"""
from __future__ import annotations

from vf import rx
from vf.ob import HELD, SKIP, VIOL, kf_active, rx_ob, select, xh_ob

PROP = "C19"
META = {
    "explanation": "z3 regex queries for name patterns; CrossHair symbolic execution of the real validators and write/read paths over vf/fsmodel.py",
    "assumptions": ["file-system model (symlink resolution component-wise, '..' after resolution)", "NUL / over-long names are OS errors, outside the model", "macOS /private carve-out only reachable at depth <= 2: not modelled"],
}

SB = "/cwd"  # sandbox root = model cwd
MID = ["", "dir", ".", "..", "lnk_d", "dangd", "new"]
LAST = ["f.oct.md", "new.oct.md", "x.md", "x.octave", "x.txt", "x.OCT.MD", "x.tar.md", "lnk_f.oct.md", "dang.oct.md", "noext", "secret.oct.md", "new.oct.md/"]
GOOD_EXT = (".oct.md", ".octave", ".md")


def _tree():
    from vf.fsmodel import FS

    fs = FS()
    fs.dirs |= {SB, SB + "/dir", SB + "/dir/dir", "/out", "/out/dir", SB + "/dir-private", SB + "/dir.bak"}
    fs.files[SB + "/dir-private/secret.oct.md"] = ["SIBLING-SECRET", 0o600]
    fs.files[SB + "/dir.bak/f.oct.md"] = ["SIBLING-SECRET2", 0o600]
    for d in (SB, SB + "/dir", SB + "/dir/dir"):
        fs.files[d + "/f.oct.md"] = ["INSIDE", 0o644]
        fs.links[d + "/lnk_d"] = "/out"
        fs.links[d + "/lnk_f.oct.md"] = "/out/secret.oct.md"
        fs.links[d + "/dang.oct.md"] = "/out/nonexistent.oct.md"
        fs.links[d + "/dangd"] = "/nowhere"
    fs.files["/out/secret.oct.md"] = ["SECRET", 0o600]
    fs.files["/out/f.oct.md"] = ["SECRET2", 0o600]
    fs.files["/out/dir/f.oct.md"] = ["SECRET3", 0o600]
    return fs


def _build(i0, i1, i2, absolute):
    segs = [s for s in (MID[i0], MID[i1]) if s] + [LAST[i2]]
    p = "/".join(segs)
    return (SB + "/" + p) if absolute else p


def _facts(fs, path):
    """Independent reading of the path: '..' component, symlink component (lexical walk, incl. last), bad extension."""
    from pathlib import PurePosixPath

    pp = PurePosixPath(path)
    dotdot = ".." in pp.parts
    ab = pp if pp.is_absolute() else PurePosixPath(SB) / pp
    link = False
    cur = "/"
    for part in ab.parts[1:]:
        if part == "..":
            cur = str(PurePosixPath(cur).parent)
            continue
        cur = cur.rstrip("/") + "/" + part
        if cur in fs.links:
            link = True
            break
    name = pp.name
    bad_ext = not name.endswith(GOOD_EXT)
    return dotdot, link, bad_ext


def _inside(p):
    return p == SB or p.startswith(SB + "/")


def _read_or_write_ops(fs):
    return [op for op in fs.log if op in ("open", "read", "write", "mkstemp", "replace", "unlink", "mkdir", "fdopen", "fchmod")]


def _mk_validator(which):
    def V_path(i0: int, i1: int, i2: int, absolute: bool) -> int:
        """
        pre: 0 <= i0 <= 6 and 0 <= i1 <= 6 and 0 <= i2 <= 11
        post: _ != 0
        """
        from vf.fsmodel import make_namespace

        fs = _tree()
        ns = make_namespace(fs)
        path = _build(i0, i1, i2, absolute)
        if which == "file_ops":
            from octave_mcp.core import file_ops as m

            m.Path = ns.Path
            ok, msg = m.validate_octave_path(path)
        elif which == "write":
            from octave_mcp.mcp import write as m

            m.Path = ns.Path
            ok, msg = m.WriteTool()._validate_path(path)
        else:
            from octave_mcp.mcp import validate as m

            m.Path = ns.Path
            ok, msg = m.ValidateTool()._validate_path(path)
        dotdot, link, bad_ext = _facts(fs, path)
        if _read_or_write_ops(fs) or fs.mutations:
            return VIOL  # validation itself must only stat
        if dotdot or link or bad_ext:
            if ok:
                if kf_active(PROP, "dangling-symlink") and link and not dotdot and not bad_ext and _only_dangling(fs, path):
                    return SKIP
                return VIOL
            return HELD
        return HELD if ok else SKIP  # refusing more than required is allowed

    return V_path


def _only_dangling(fs, path):
    """Family of the listed finding: every symlink component on the lexical walk is a dangling one."""
    from pathlib import PurePosixPath

    pp = PurePosixPath(path)
    ab = pp if pp.is_absolute() else PurePosixPath(SB) / pp
    cur = "/"
    for part in ab.parts[1:]:
        cur = cur.rstrip("/") + "/" + part
        if cur in fs.links:
            if fs.exists(cur):
                return False
            return True
    return False


def _mk_write(api):
    def W_confined(i0: int, i1: int, i2: int, absolute: bool) -> int:
        """
        pre: 0 <= i0 <= 6 and 0 <= i1 <= 6 and 0 <= i2 <= 11
        post: _ != 0
        """
        from vf.fsmodel import make_namespace

        fs = _tree()
        ns = make_namespace(fs)
        path = _build(i0, i1, i2, absolute)
        outside_before = {k: tuple(v) for k, v in fs.files.items() if not _inside(k)}
        if api == "atomic":
            from octave_mcp.core import file_ops as m

            m.os, m.tempfile, m.open, m.Path = ns.os, ns.tempfile, ns.open, ns.Path
            m.compute_hash = lambda c: "h:" + c
            r = m.atomic_write_octave(path, "NEW", None)
            refused = r.get("status") == "error"
        else:
            from harness.C10 import _install_write_stubs
            from harness.toolworld import World, drive
            from octave_mcp.mcp import write as mod

            real_vp = getattr(mod.WriteTool, "_real_validate_path", None) or mod.WriteTool._validate_path
            mod.WriteTool._real_validate_path = real_vp
            _install_write_stubs(World(), tok_raises=False, parse_outcome=0, builtin=False, load_outcome=0, n1=0, n2=0, emit_raises=False, compile_raises=False, file_exists=False, hermetic_raises=False)
            mod.WriteTool._validate_path = real_vp
            mod.os, mod.tempfile, mod.open, mod.Path = ns.os, ns.tempfile, ns.open, ns.Path
            mod.WriteTool._compute_hash = lambda self, c: "h:" + c
            r = drive(mod.WriteTool().execute(target_path=path, content="K::v"))
            refused = r.get("status") == "error"
        dotdot, link, bad_ext = _facts(fs, path)
        # nothing outside the sandbox is ever read, created, replaced or removed
        for op, p in fs.mutations:
            if not _inside(p):
                return VIOL
        for op, p in fs.touched:
            if op == "open" and not _inside(fs._resolve(p)):
                return VIOL
        if {k: tuple(v) for k, v in fs.files.items() if not _inside(k)} != outside_before:
            return VIOL
        if dotdot or link or bad_ext:
            dang = kf_active(PROP, "dangling-symlink") and link and not dotdot and not bad_ext and _only_dangling(fs, path)
            if (not refused or fs.mutations or _read_or_write_ops(fs)) and not dang:
                return VIOL  # must be refused before any file is read, created or replaced
        return HELD

    return W_confined


def R_validate_tool_read(i0: int, i1: int, i2: int, absolute: bool) -> int:
    """
    pre: 0 <= i0 <= 6 and 0 <= i1 <= 6 and 0 <= i2 <= 11
    post: _ != 0
    """
    # octave_validate(file_path=...) never reads a file outside the sandbox / behind a refused path
    from harness.toolworld import World, drive, install_validate_stubs
    from vf.fsmodel import make_namespace

    fs = _tree()
    ns = make_namespace(fs)
    path = _build(i0, i1, i2, absolute)
    w = World()
    mod = install_validate_stubs(w, parse_outcome=0, n_parse_warnings=0, builtin=False, load_outcome=0, n_errors_first=0, n_errors_after_fix=0, emit_raises=False, compile_raises=False, zones=False)

    class P(ns.Path):
        def read_text(self, encoding=None):
            with fs.open(str(self), "r") as f:
                return f.read()

    mod.Path = P
    seen = []
    real_parse = mod.parse_with_warnings
    mod.parse_with_warnings = lambda c: (seen.append(c), real_parse(c))[1]
    r = drive(mod.ValidateTool().execute(schema="ANY", file_path=path))
    dotdot, link, bad_ext = _facts(fs, path)
    for c in seen:
        if c.startswith("SECRET"):
            return VIOL
    if dotdot or link or bad_ext:
        dang = kf_active(PROP, "dangling-symlink") and link and not dotdot and not bad_ext and _only_dangling(fs, path)
        if (r.get("status") != "error" or _read_or_write_ops(fs)) and not dang:
            return VIOL
    return HELD


URI_SEGS = ["", "dir", "..", "lnk_d", "f.oct.md", "secret.oct.md", "lnk_f.oct.md", ".", "dir-private", "dir.bak"]


def U_source_uri(i0: int, i1: int, i2: int, leading_slash: bool) -> int:
    """
    pre: 0 <= i0 <= 9 and 0 <= i1 <= 9 and 0 <= i2 <= 9
    post: _ != 0
    """
    # a vocabulary source URI never resolves outside its base directory
    from octave_mcp.core import hydrator as h
    from vf.fsmodel import make_namespace

    fs = _tree()
    ns = make_namespace(fs)

    class P(ns.Path):
        def relative_to(self, other):
            s, o = str(self), str(other)
            if s == o or s.startswith(o.rstrip("/") + "/"):
                return P(s[len(o) :].lstrip("/") or ".")
            raise ValueError("not relative")

    uri = "/".join(s for s in (URI_SEGS[i0], URI_SEGS[i1], URI_SEGS[i2]) if s)
    if leading_slash:
        uri = "/" + uri
    if not uri:
        return SKIP
    try:
        got = h.validate_source_uri(uri, P(SB + "/dir"))
    except h.SourceUriSecurityError:
        return HELD
    return HELD if (str(got) == SB + "/dir" or str(got).startswith(SB + "/dir/")) else VIOL


# --- RX --------------------------------------------------------------------------------------------------------------
def build_names():
    from octave_mcp.schemas import loader

    qs = []
    # .match semantics: the pattern may stop before a trailing newline ($)
    lang = rx.full_lang(loader.SCHEMA_NAME_PATTERN)
    pathy = rx.contains(rx.chars("/\\.\x00"))

    def replay(words):
        w = words[0]
        ok = loader.SCHEMA_NAME_PATTERN.match(w) is not None
        return ok and any(c in w for c in "/\\.\x00"), f"schema name {w!r} accepted: {ok}"

    qs.append({"name": "schema-name/inhabited", "langs": [lang], "expect": "sat"})
    qs.append({"name": "schema-name/no-path-characters", "langs": [rx.inter(lang, pathy)], "replay": replay})
    return qs


def build_frozen():
    """frozen@sha256:<64 hex> - the digest pattern is read from the live source of resolve_hermetic_standard."""
    import ast
    import inspect
    import re
    import textwrap

    from octave_mcp.core import hydrator as h

    src = textwrap.dedent(inspect.getsource(h.resolve_hermetic_standard))
    pats = [n.args[0].value for n in ast.walk(ast.parse(src)) if isinstance(n, ast.Call) and getattr(n.func, "attr", "") in ("fullmatch", "match") and n.args and isinstance(n.args[0], ast.Constant) and isinstance(n.args[0].value, str)]
    if not pats:
        raise rx.Unsupported("digest pattern not found in resolve_hermetic_standard")
    qs = []
    hexd = rx.chars("0123456789abcdefABCDEF")
    for i, pat in enumerate(pats):
        lang = rx.fullmatch_lang(pat)
        qs.append({"name": f"frozen-ref[{i}]/inhabited", "langs": [lang], "expect": "sat"})
        # the digest (last 64 characters) is hex, and the reference holds no path character at all
        qs.append({"name": f"frozen-ref[{i}]/ends-with-64-hex", "langs": [rx.minus(lang, rx.cat(rx.SIGMA_STAR, rx.loop(hexd, 64, 64)))], "replay": lambda w, pat=pat: (re.fullmatch(pat, w[0]) is not None, f"reference {w[0]!r} accepted")})
        qs.append({"name": f"frozen-ref[{i}]/no-path-characters", "langs": [rx.inter(lang, rx.contains(rx.chars("/\\.\x00")))], "replay": lambda w, pat=pat: (re.fullmatch(pat, w[0]) is not None, f"reference {w[0]!r} accepted")})
        qs.append({"name": f"frozen-ref[{i}]/digest-length-fixed", "langs": [rx.inter(lang, rx.cat(rx.SIGMA_STAR, rx.lit(":"), rx.alt(rx.loop(hexd, 0, 63), rx.cat(rx.loop(hexd, 65, 65), rx.star(hexd)))))], "replay": lambda w, pat=pat: (re.fullmatch(pat, w[0]) is not None, f"reference {w[0]!r} accepted")})
    return qs


def H_frozen_hash(same: bool, exists: bool) -> int:
    """
    pre: True
    post: _ != 0
    """
    # a frozen reference resolves only to a cache file whose bytes hash to the digest
    from octave_mcp.core import hydrator as h

    digest = "ab" * 32

    class CP:
        def __init__(self, s="/cache"):
            self.s = s

        def __truediv__(self, o):
            return CP(self.s + "/" + o)

        def exists(self):
            return exists

    real = h.compute_vocabulary_hash
    h.compute_vocabulary_hash = lambda p: ("sha256:" + digest) if same else "sha256:" + "0" * 64
    try:
        try:
            got = h.resolve_hermetic_standard("frozen@sha256:" + digest, cache_dir=CP())
        except h.VocabularyError:
            return HELD if not (same and exists) else VIOL
    finally:
        h.compute_vocabulary_hash = real
    if not (same and exists):
        return VIOL
    return HELD if got.s == "/cache/" + digest[:16] + ".oct.md" else VIOL


def replay_rx(ob_id, query, words):
    for b in (build_names, build_frozen):
        for q in b():
            if q["name"] == query and "replay" in q:
                return q["replay"](words)
    return False, "query not found"


def obligations(tier):
    st = ["Path/os/tempfile/open -> vf.fsmodel over a model tree with symlinks to outside, dangling symlinks and outside secrets"]
    wit = ("dangling-symlink", {"i0": 0, "i1": 0, "i2": 8, "absolute": True}, "a path whose last component is a dangling symlink is accepted and the link is replaced by the written file")
    bound = "paths of <= 3 segments: 7 intermediate kinds (dir . .. symlink-to-dir dangling-symlink new empty) x 2 levels x 12 final names (allowed/disallowed/compound/upper-case extensions, symlink-to-file, dangling symlink, no extension, trailing slash), absolute and relative"
    obs = [
        rx_ob(PROP, "RX.schema-name-pattern", build_names, bound="all strings of any length", functions=["schemas.loader.SCHEMA_NAME_PATTERN"]),
        rx_ob(PROP, "RX.frozen-digest-pattern", build_frozen, bound="all strings of any length", functions=["core.hydrator.resolve_hermetic_standard (digest pattern)"]),
    ]
    obs.append(xh_ob(PROP, "H.frozen-reference-needs-matching-hash", H_frozen_hash, timeout=120, bound="cache file present/absent x content hash equal/different", functions=["core.hydrator.resolve_hermetic_standard"], stubs=["compute_vocabulary_hash -> symbolic outcome", "cache dir -> stub path"]))
    for which in ("file_ops", "write", "validate"):
        obs.append(xh_ob(PROP, f"V.path-validator[{which}]", _mk_validator(which), timeout=900, bound=bound, functions=[{"file_ops": "core.file_ops.validate_octave_path", "write": "mcp.write.WriteTool._validate_path", "validate": "mcp.validate.ValidateTool._validate_path"}[which]], stubs=st, witnesses=[wit]))
    for api in ("atomic", "tool"):
        obs.append(xh_ob(PROP, f"W.write-confined[{api}]", _mk_write(api), timeout=1500, bound=bound, functions=["core.file_ops.atomic_write_octave" if api == "atomic" else "mcp.write.WriteTool.execute"], stubs=st, witnesses=[wit]))
    obs.append(xh_ob(PROP, "R.validate-tool-file_path-confined", R_validate_tool_read, timeout=1500, bound=bound, functions=["mcp.validate.ValidateTool.execute (file_path branch)"], stubs=st))
    obs.append(xh_ob(PROP, "U.source-uri-confined", U_source_uri, timeout=900, bound="URIs of <= 3 segments from {dir .. symlink-to-dir file secret symlink-to-file . sibling dirs whose names extend the base name (dir-private, dir.bak)}, with and without leading slash", functions=["core.hydrator.validate_source_uri"], stubs=st))
    return select(obs, tier)
